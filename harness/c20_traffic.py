"""C20 - observed bus traffic is reported once, decoded in context, paired up."""
import asyncio

from symx import E, Case, vloop
from harness.common import call
from harness import rigs
from harness.c19_deframe import _patched, Decoded, _CmdStub

import dali.frame as F
import dali.command as C
import dali.gear.general as gg
import dali.driver.hid as H
import dali.driver.serial as S

# the deeper thorough case list (kept in cases()) could not be re-validated end to end after the final harness
# changes within the session: see symx/runner.py
THOROUGH_CASES = "quick"
THOROUGH_SECOND = 0.2      # (every obligation through cvc5 as well ran past 15 minutes)

META = {
    "level_text": "Bounded symbolic verification of bus-traffic reporting: (1) serial receive path (LUBA and "
                  "SCI) as an inductive step - from a symbolic remembered device type one symbolic observed "
                  "frame is decoded with exactly that type, the new memory is the parameter iff the frame is "
                  "ENABLE DEVICE TYPE else 0, and the command is delivered exactly once to each of 0..3 "
                  "subscribed queues and to none that unsubscribed; (2) the Tridonic watcher task (real "
                  "coroutine on a virtual clock) on histories of 2 (thorough 3) gateway reports, each of an "
                  "enumerated kind with symbolic fields, each gap shorter or longer than the 200 ms timeout, "
                  "0..2 subscribers joining/leaving between reports: the sequence of (command, response, "
                  "error flag) reports equals an independent reference transducer and the watcher stays alive.",
    "level_note": "Trusted: the reference transducer in the harness (written from the property statement), the "
                  "library's frame decoder for turning frame bits into a command (C01/C03 check it; here only "
                  "the context - device type, pairing, timeouts - is under test), asyncio, z3/cvc5, symx "
                  "semantics (each path re-run concretely).",
    "explanation": "symbolic execution of hid.tridonic._bus_watch/_handle_read/_callback._invoke and of the "
                   "serial receivers' _process_* with symbolic report fields under a virtual clock",
    "bounds": ["serial history with the consumer subscribing before frame 0..3",
               "serial: one observed frame from an arbitrary remembered device type (induction), 0..3 queues",
               "subscriber registries (serial queues, hid callbacks): every history of 4 (thorough 6) join/leave "
               "operations, solver-chosen",
               "serial histories with the real decoder: ENABLE DEVICE TYPE a, extended frame X, ENABLE DEVICE "
               "TYPE b (or a plain frame), X again - a, b symbolic 0..255, X from 3 addresses x 8 opcodes",
               "Tridonic: four three-report histories with 120 ms gaps (two of them exceed one 200 ms window)",
               "serial: an observed 16-bit frame then the 24-bit frame of the same number (8 representatives); "
               "bursts of 80",
               "Tridonic: histories of 2 (thorough 3) reports x 11 report kinds x symbolic fields x gap "
               "shorter/longer than the timeout x own/observed origin; subscribers 0..2"],
    "stubs": ["fake os (harness environment)", "struct format interpreter in symbolic mode",
              "serial part: recording decode stub (as in C19)"],
    "outside": ["histories longer than 3 reports", "interleaving with the driver's own sends beyond the reports "
                "they produce", "gateway reports a real gateway cannot produce (DALI8 report with non-zero "
                "upper bytes)"],
    "assumptions": [],
}


# ---------------------------------------------------------------------------------------------
# (1) serial receivers: device-type memory and distribution

def h_serial_observed(ctx, which, bits, nq):
    with _patched(ctx):
        if which == "luba":
            p = S.DriverLubaRs232.LubaProtocol()
        else:
            p = S.DriverSCIRS232.SCIRS232Protocol()
        dt = ctx.fresh("dt", 0, 255)
        p._prev_rx_enable_dt = dt
        queues = [S.DistributorQueue(p.queue_rx_dali) for _ in range(nq)]
        gone = S.DistributorQueue(p.queue_rx_dali)
        p.queue_rx_dali.del_handler(gone)
        x = ctx.fresh("x", 0, (1 << bits) - 1)
        fb = [(x >> (8 * i)) & 0xFF for i in reversed(range(bits // 8))]
        if which == "luba":
            pkt = rigs.luba_event_rx(fb)
        else:
            pkt = rigs.sci_frame(0x13 if bits == 16 else 0x18, fb[0] if bits == 24 else 0, fb[-2], fb[-1])
        st, r = call(p.data_received, pkt)
        tag = "%s-observed" % which
        if st == "exc":
            ctx.fail("receiver raised %r" % (r,), key=tag + "/raised:" + type(r).__name__)
            return "raised"
        calls = _CmdStub.Command.calls
        ctx.prove(len(calls) == 1, "%d decodes for one observed frame" % len(calls), key=tag + "/decodes")
        if len(calls) == 1:
            v, w, used = calls[0]
            ctx.prove(E.and_(w == bits, E.eq(v, x)), "decoded another frame than the one observed", key=tag + "/frame")
            ctx.prove(E.eq(used, dt), "decoded with another device type than the remembered one", key=tag + "/devtype")
            ctx.prove(_CmdStub.Command.forward[0], "the observed frame was handed to the decoder as a plain Frame: if it "
                      "matches no known command the decoder raises TypeError and the frame is dropped",
                      key=tag + "/not-a-forward-frame")
        is_edt = E.and_(bits == 16, E.eq(x >> 8, 0xC1))
        want = E.ite(is_edt, x & 0xFF, 0)
        ctx.prove(E.eq(p._prev_rx_enable_dt, want), "device-type memory after the frame is wrong",
                  key=tag + "/memory")
        for i, q in enumerate(queues):
            n = q.qsize()
            ctx.prove(n == 1, "subscriber %d got %d copies" % (i, n), key=tag + "/delivery")
        ctx.prove(gone.qsize() == 0, "unsubscribed queue still receives", key=tag + "/unsubscribed")
        ctx.prove(p.queue_rx_dali.qsize() == 0 or True, "", key=tag + "/parent")
        return "ok"


def h_serial_history(ctx, which):
    """ENABLE DEVICE TYPE a, frame X, ENABLE DEVICE TYPE b, the same frame X again - on one receiver, with
    the real decoder (nothing stubbed): every forward frame is delivered once, in order, and X is decoded
    each time with the type announced immediately before it and by nothing older (not even by what the
    same bits meant a moment ago)."""
    with _patched(ctx, stub=False):
        p = S.DriverLubaRs232.LubaProtocol() if which == "luba" else S.DriverSCIRS232.SCIRS232Protocol()
        # the consumer may subscribe late: what went over the bus before still counts for the decoding of
        # what it does get to see
        join_at = ctx.fresh_choice("subscribed_before_frame", 4)
        q = S.DistributorQueue(p.queue_rx_dali) if join_at == 0 else None
        hi = [0xFF, 0x03, 0x8B][ctx.fresh_choice("hi", 3)]
        lo = ctx.fresh("lo", 0xE0, 0xE7)
        x = (hi << 8) | lo
        dt1, dt2 = ctx.fresh("dt1", 0, 255), ctx.fresh("dt2", 0, 255)
        third = ctx.fresh_bool("plain_between")     # a plain frame instead of the second announcement
        frames = [0xC100 | dt1, x, (0xFE00 | (dt2 & 0xFE)) if third else (0xC100 | dt2), x]
        tag = "%s-history" % which
        for k, v in enumerate(frames):
            if k == join_at and q is None:
                q = S.DistributorQueue(p.queue_rx_dali)
            fb = [(v >> 8) & 0xFF, v & 0xFF]
            pkt = rigs.luba_event_rx(fb) if which == "luba" else rigs.sci_frame(0x13, 0, fb[0], fb[1])
            st, r = call(p.data_received, pkt)
            if st == "exc":
                ctx.fail("receiver raised %r" % (r,), key=tag + "/raised:" + type(r).__name__)
                return "raised"
        got = []
        while q.qsize():
            got.append(q.get_nowait())
        ctx.prove(len(got) == 4 - join_at, "%d commands delivered for %d frames observed while subscribed"
                  % (len(got), 4 - join_at), key=tag + "/count")
        if len(got) != 4 - join_at:
            return "count"
        types = [0, dt1, 0, 0 if third else dt2]
        labels = []
        for i, (v, dt, g) in list(enumerate(zip(frames, types, [None] * join_at + got)))[join_at:]:
            st, want = call(C.from_frame, F.ForwardFrame(16, v), devicetype=dt)
            ok = st == "ok" and type(g) is type(want)
            ctx.prove(ok, "frame %d of the history decoded as %s, under the announced type it is %s"
                      % (i, type(g).__name__, type(want).__name__ if st == "ok" else want),
                      key=tag + "/class:%d" % i)
            ctx.prove(E.eq(g.frame.as_integer, v), "frame %d delivered with other bits" % i, key=tag + "/bits:%d" % i)
            labels.append(type(g).__name__)
        return "join%d:%s" % (join_at, ",".join(labels))


def h_serial_widths(ctx, which):
    """An observed 16-bit frame followed by the observed 24-bit frame 00:<the same two bytes> (an event from
    control device 0), through the receiver with the real decoder: two reports, the second a 24-bit one with
    its own bits - frames of different widths that agree as numbers are different frames."""
    reps = (0x8000, 0xFE80, 0x01A0, 0xA300, 0x0100, 0x7F2A, 0x05E2, 0xFFFF)
    y = reps[ctx.fresh_choice("y", len(reps))]
    with _patched(ctx, stub=False):
        p = S.DriverLubaRs232.LubaProtocol() if which == "luba" else S.DriverSCIRS232.SCIRS232Protocol()
        q = S.DistributorQueue(p.queue_rx_dali)
        fb = [(y >> 8) & 0xFF, y & 0xFF]
        pk16 = rigs.luba_event_rx(fb) if which == "luba" else rigs.sci_frame(0x13, 0, fb[0], fb[1])
        pk24 = rigs.luba_event_rx([0] + fb) if which == "luba" else rigs.sci_frame(0x18, 0, fb[0], fb[1])
        st, r = call(lambda: (p.data_received(pk16), p.data_received(pk24)))
        tag = "%s-widths" % which
        if st == "exc":
            ctx.fail("receiver raised %r" % (r,), key=tag + "/raised:" + type(r).__name__)
            return "raised"
        got = []
        while q.qsize():
            got.append(q.get_nowait())
        ctx.prove(len(got) == 2, "%d reports for two observed frames" % len(got), key=tag + "/count")
        if len(got) == 2:
            ctx.prove(len(got[0].frame) == 16 and got[0].frame.as_integer == y, "first report is not the 16-bit frame",
                      key=tag + "/first")
            ctx.prove(len(got[1].frame) == 24 and got[1].frame.as_integer == y,
                      "the 24-bit frame 00:%04x was reported as %s with a %d-bit frame"
                      % (y, type(got[1]).__name__, len(got[1].frame)), key=tag + "/second")
            st2, want = call(C.from_frame, F.ForwardFrame(24, y))
            ctx.prove(st2 == "ok" and type(got[1]) is type(want), "the 24-bit frame was decoded as %s, on its own it is %s"
                      % (type(got[1]).__name__, type(want).__name__ if st2 == "ok" else want), key=tag + "/class")
        return "%04x" % y


def _burst(ctx, which, n):
    from harness.c19_deframe import h_burst
    return h_burst(ctx, which, n)


def h_subscriber_history(ctx, which, steps):
    """Every history of `steps` join/leave operations (solver-chosen), then one observed frame:
    exactly the queues subscribed at that time get exactly one copy."""
    with _patched(ctx):
        p = S.DriverLubaRs232.LubaProtocol() if which == "luba" else S.DriverSCIRS232.SCIRS232Protocol()
        parent = p.queue_rx_dali
        alive, gone, names = [], [], []
        for step in range(steps):
            op = ctx.fresh_choice("op%d" % step, 1 + len(alive))
            if op == 0:
                q = S.DistributorQueue(parent)
                alive.append(q)
                names.append("join")
            else:
                q = alive.pop(op - 1)
                parent.del_handler(q)
                gone.append(q)
                names.append("leave%d" % (op - 1))
        pkt = rigs.luba_event_rx([0x12, 0x34]) if which == "luba" else rigs.sci_frame(0x13, 0, 0x12, 0x34)
        st, r = call(p.data_received, pkt)
        tag = "%s-subscribers" % which
        ctx.prove(st == "ok", "receiver raised %r" % (r,), key=tag + "/raised")
        for i, q in enumerate(alive):
            ctx.prove(q.qsize() == 1, "history %s: subscribed queue %d got %d copies" % (names, i, q.qsize()),
                      key=tag + "/delivery")
        for q in gone:
            ctx.prove(q.qsize() == 0, "history %s: an unsubscribed queue still receives" % (names,),
                      key=tag + "/unsubscribed")
        return " ".join(names)


def h_callback_history(ctx, steps):
    """The same for the hid drivers' callback registry (bus_traffic / connection status)."""
    parent = object()
    cb = H._callback(parent)
    alive, gone, calls = [], [], {}
    names = []
    for step in range(steps):
        op = ctx.fresh_choice("op%d" % step, 1 + len(alive))
        if op == 0:
            k = len(calls)
            calls[k] = []
            alive.append((k, cb.register(lambda par, *a, k=k: calls[k].append(a))))
            names.append("join")
        else:
            k, h = alive.pop(op - 1)
            h.unregister()
            gone.append(k)
            names.append("leave%d" % (op - 1))

    async def main(loop):
        cb._invoke("x", 1)
        await vloop.settle(3)
    st, r = call(vloop.run, main)
    ctx.prove(st == "ok", "invoke raised %r" % (r,), key="callbacks/raised")
    for k, h in alive:
        ctx.prove(calls[k] == [("x", 1)], "history %s: registered callback %d got %r" % (names, k, calls[k]),
                  key="callbacks/delivery")
    for k in gone:
        ctx.prove(calls[k] == [], "history %s: an unregistered callback was still called" % (names,),
                  key="callbacks/unregistered")
    return " ".join(names)


def h_callback_reentrant(ctx, nsubs):
    """A subscriber changes the registry from inside its own callback while report 1 is being
    delivered (unregisters itself, unregisters another subscriber, or registers a new one); report 2
    follows.  Delivery to everybody not involved must be unaffected, nothing may raise, and report 2
    must follow the new registry."""
    parent = object()
    cb = H._callback(parent)
    calls, handles = {}, {}
    actor = ctx.fresh_choice("actor", nsubs)
    action = ctx.fresh_choice("action", 3)            # 0 leave itself, 1 remove another, 2 add a new one
    victim = (actor + 1 + ctx.fresh_choice("victim", nsubs - 1)) % nsubs if action == 1 and nsubs > 1 else None
    if action == 1 and victim is None:
        return "n/a"
    done = []

    def mk(k):
        def f(par, *a):
            calls[k].append(a)
            if k == actor and not done:
                done.append(1)
                if action == 0:
                    handles[k].unregister()
                elif action == 1:
                    handles[victim].unregister()
                else:
                    calls["new"] = []
                    handles["new"] = cb.register(lambda par, *a: calls["new"].append(a))
        return f
    for k in range(nsubs):
        calls[k] = []
        handles[k] = cb.register(mk(k))

    async def main(loop):
        cb._invoke("r", 1)
        await vloop.settle(3)
        cb._invoke("r", 2)
        await vloop.settle(3)
    st, r = call(vloop.run, main)
    tag = "callbacks-reentrant"
    ctx.prove(st == "ok", "delivery raised %r when a subscriber changed the registry from its callback" % (r,),
              key=tag + "/raised:" + type(r).__name__)
    both = [("r", 1), ("r", 2)]
    for k in range(nsubs):
        if k == actor and action == 0:
            ctx.prove(calls[k] == [("r", 1)], "self-unregistered subscriber got %r" % (calls[k],),
                      key=tag + "/self-leave")
        elif k == victim:
            # whether report 1 still reaches a subscriber removed during its delivery is not specified
            ctx.prove(calls[k] in ([], [("r", 1)]), "removed subscriber got %r" % (calls[k],),
                      key=tag + "/removed")
        else:
            ctx.prove(calls[k] == both, "uninvolved subscriber %d got %r (actor %d, action %d)"
                      % (k, calls[k], actor, action), key=tag + "/uninvolved")
    if action == 2:
        ctx.prove(calls.get("new") in ([("r", 2)], both), "subscriber added during delivery got %r"
                  % (calls.get("new"),), key=tag + "/joined")
    return "actor%d-action%d" % (actor, action)


# ---------------------------------------------------------------------------------------------
# (2) Tridonic watcher

KINDS = ["dapc", "query", "config", "edt", "extended", "cmd24", "event", "backward", "noframe",
         "framing", "other"]


def _mk_report(ctx, i, kind):
    """Returns (report bytes, reference event) for report i of the given kind."""
    origin = 0x11 if ctx.fresh_bool("observed%d" % i) else 0x12
    a = ctx.fresh("a%d" % i, 0, 63)
    if kind == "dapc":
        lv = ctx.fresh("p%d" % i, 0, 255)
        fv, bits = (a << 9) | lv, 16
    elif kind == "query":
        fv, bits = (a << 9) | 0x1A0, 16
    elif kind == "config":
        fv, bits = (a << 9) | 0x12A, 16
    elif kind == "edt":
        dtv = [6, 8, 1, 3][ctx.fresh_choice("dt%d" % i, 4)]
        fv, bits = 0xC100 | dtv, 16
    elif kind == "extended":
        op = [0xE2, 0xF0, 0xFA, 0xF2][ctx.fresh_choice("op%d" % i, 4)]
        fv, bits = (a << 9) | 0x100 | op, 16
    elif kind == "cmd24":
        fv, bits = (a << 17) | 0x1FE30, 24
    elif kind == "event":
        d = ctx.fresh("p%d" % i, 0, 15)
        fv, bits = 0x808000 | (1 << 17) | ((a & 31) << 10) | d, 24
    else:
        fv, bits = None, 0
    if fv is not None:
        fb = [(fv >> 24) & 0xFF, (fv >> 16) & 0xFF, (fv >> 8) & 0xFF, fv & 0xFF]
        rep = rigs.tridonic_report(origin, 0x73 if bits == 16 else 0x76, fb, 0)
        return rep, ("forward", fv, bits)
    if kind == "backward":
        v = ctx.fresh("p%d" % i, 0, 255)
        return rigs.tridonic_report(origin, 0x72, [0, 0, 0, v], 0), ("backward", v, False)
    if kind == "framing":
        return rigs.tridonic_report(origin, 0x77, [0, 0, 0, 3], 0), ("backward", 255, True)
    if kind == "noframe":
        return rigs.tridonic_report(origin, 0x71, [0, 0, 0, 0], 0), ("noframe",)
    st = ctx.fresh("p%d" % i, 0, 255)
    ctx.assume(E.ne(st, 3))
    return rigs.tridonic_report(origin, 0x77, [0, 0, 0, st], 0), ("ignored",)


class RefWatcher:
    """Reference transducer: history of bus events -> list of reports."""

    def __init__(self):
        self.current = None
        self.devtype = 0
        self.reports = []

    def _rep(self, cmd, resp, err):
        self.reports.append((cmd, resp, err))

    def timeout(self):
        c = self.current
        if c is None:
            return
        if c.sendtwice:
            self._rep(c, None, True)
        else:
            self._rep(c, ("none",), False)
        self.current = None

    def event(self, ev):
        c = self.current
        if ev[0] == "ignored":
            return
        if ev[0] == "noframe":
            if c is not None:
                self.timeout()
            return
        if ev[0] == "backward":
            if c is None:
                return
            if c.sendtwice:
                self._rep(c, None, True)
            else:
                self._rep(c, ("error",) if ev[2] else ("value", ev[1]), False)
            self.current = None
            return
        # forward frame
        fv, bits = ev[1], ev[2]
        if c is not None:
            if c.sendtwice:
                same = len(c.frame) == bits and bool(E.eq(c.frame.as_integer, fv))
                self.current = None
                if same:
                    self._rep(c, None, False)
                    return
                self._rep(c, None, True)
            else:
                self._rep(c, ("none",), False)
                self.current = None
        cmd = C.from_frame(F.ForwardFrame(bits, fv), devicetype=self.devtype)
        self.devtype = 0
        if cmd.sendtwice or cmd.response:
            self.current = cmd
        else:
            self._rep(cmd, None, False)
        if isinstance(cmd, gg.EnableDeviceType):
            self.devtype = cmd.param


SUBS = ["one", "two", "late", "leaver", "none"]


def h_watcher(ctx, kinds, subs, short_gap=0.05):
    """short_gap: the length of a gap that is 'shorter than the timeout' (0.2 s).  With 0.12 two short gaps add
    up to more than the timeout: a command that becomes pending when another was pending before it has its
    own full window, counted from its own arrival."""
    with rigs.HidRig(ctx, 3) as rig:
        reps = [_mk_report(ctx, i, k) for i, k in enumerate(kinds)]
        gaps = [ctx.fresh_bool("long_gap%d" % i) for i in range(1, len(kinds))]
        logs = {}
        out = {}

        def subscriber(name):
            logs[name] = []

            def cb(dev, cmd, resp, err):
                logs[name].append((cmd, resp, err))
            return cb

        async def main(loop):
            d = await rigs.tridonic_connect(loop, rig)
            handles = {}
            if subs in ("one", "two", "leaver"):
                handles["A"] = d.bus_traffic.register(subscriber("A"))
            if subs in ("two", "leaver"):
                handles["B"] = d.bus_traffic.register(subscriber("B"))
            for i, (rep, ev) in enumerate(reps):
                if i > 0:
                    await asyncio.sleep(0.35 if gaps[i - 1] else short_gap)
                    if i == 1 and subs == "late":
                        handles["L"] = d.bus_traffic.register(subscriber("L"))
                        out["late_joined_after"] = None
                    if i == 1 and subs == "leaver":
                        handles["B"].unregister()
                rig.deliver(loop, d, rep)
                await vloop.settle(6)
                out.setdefault("counts", []).append({k: len(v) for k, v in logs.items()})
            await asyncio.sleep(0.5)
            alive, excs = rigs.background_tasks_alive(d)
            out["alive"] = alive
            out["exc"] = excs[0] if excs else None
            d.disconnect()
            await vloop.settle(3)
        st, r = call(vloop.run, main)
        tag = "watcher"
        if st == "exc":
            ctx.fail("harness run raised %r" % (r,), key=tag + "/run-raised:" + type(r).__name__)
            return "raised"
        ctx.prove(out["alive"], "the watcher task died (%r): no further traffic will be reported" % (out["exc"],),
                  key=tag + "/watcher-died:" + type(out["exc"]).__name__)
        # reference
        ref = RefWatcher()
        marks = []
        for i, (rep, ev) in enumerate(reps):
            if i > 0 and gaps[i - 1]:
                ref.timeout()
            marks.append(len(ref.reports))       # reports that exist *before* report i is processed
            ref.event(ev)
        ref.timeout()
        want = ref.reports

        def same(got, exp):
            gc, gr, ge = got
            ec, er, ee = exp
            if type(gc) is not type(ec) or ge is not ee:
                return False
            ok = E.eq(gc.frame.as_integer, ec.frame.as_integer)
            if er is None:
                return E.and_(ok, gr is None)
            if gr is None or type(gr) is not type(ec).response:
                return False
            raw = gr.raw_value
            if er[0] == "none":
                return E.and_(ok, raw is None)
            if er[0] == "error":
                return E.and_(ok, raw is not None and raw.error)
            return E.and_(ok, raw is not None and not raw.error and E.eq(raw.as_integer, er[1]))

        def check_log(name, got, exp):
            ctx.prove(len(got) == len(exp), "subscriber %s got %d reports, reference says %d"
                      % (name, len(got), len(exp)), key=tag + "/count:" + name)
            for g, e in zip(got, exp):
                ctx.prove(same(g, e), "report differs from the reference (command, response or error flag)",
                          key=tag + "/report:" + name)
        if "A" in logs:
            check_log("A", logs["A"], want)
        if subs == "two":
            check_log("B", logs["B"], want)
        if subs == "late":
            # L joined before report 1 was delivered: it must get every report produced from then on
            k = marks[1] if len(marks) > 1 else len(want)
            # reports produced by a timeout that elapsed during the gap belong to the time before joining
            n_before = out["counts"][0].get("A", None)
            check_log("L", logs.get("L", []), want[_joined_index(ref, reps, gaps):])
        if subs == "leaver":
            check_log("B", logs["B"], want[:_left_index(reps, gaps)])
        return "reports=%d" % len(want)


def _joined_index(ref, reps, gaps):
    """Number of reference reports produced before the late subscriber joined (it joins after
    the first gap, i.e. after a timeout during that gap has been processed)."""
    r = RefWatcher()
    r.event(reps[0][1])
    if gaps and gaps[0]:
        r.timeout()
    return len(r.reports)


def _left_index(reps, gaps):
    r = RefWatcher()
    r.event(reps[0][1])
    if gaps and gaps[0]:
        r.timeout()
    return len(r.reports)


def cases(tier):
    cs = []
    for which in ("luba", "sci"):
        for bits in (16, 24):
            for nq in (0, 1, 3):
                cs.append(Case("%s-observed-%d-q%d" % (which, bits, nq), h_serial_observed,
                               {"which": which, "bits": bits, "nq": nq}))
    nsteps = 4 if tier == "quick" else 6
    for which in ("luba", "sci"):
        cs.append(Case("%s-subscriber-history" % which, h_subscriber_history, {"which": which, "steps": nsteps}))
        cs.append(Case("%s-history" % which, h_serial_history, {"which": which}))
        cs.append(Case("%s-burst-80" % which, _burst, {"which": which, "n": 80}))
        cs.append(Case("%s-widths" % which, h_serial_widths, {"which": which}))
    cs.append(Case("callback-history", h_callback_history, {"steps": nsteps}))
    cs.append(Case("callback-reentrant", h_callback_reentrant, {"nsubs": 3 if tier == "quick" else 4}))
    inst = rigs.install_tridonic_structs
    if tier == "quick":
        for k1 in KINDS:
            for k2 in KINDS:
                if k1 in ("backward", "noframe", "framing", "other") and k2 in ("other",):
                    continue
                cs.append(Case("watch-%s-%s" % (k1, k2), h_watcher, {"kinds": (k1, k2), "subs": "one"}, install=inst))
        for s in SUBS[1:]:
            for ks in (("query", "backward"), ("config", "config"), ("edt", "extended"), ("dapc", "query")):
                cs.append(Case("watch-%s-%s-%s" % (ks[0], ks[1], s), h_watcher, {"kinds": ks, "subs": s}, install=inst))
        # a few three-report histories: the device type must be forgotten after one frame
        for ks in (("edt", "extended", "extended"), ("edt", "dapc", "extended"), ("edt", "query", "extended"),
                   ("edt", "backward", "extended"), ("config", "config", "config"), ("query", "query", "backward"),
                   ("edt", "config", "config")):
            cs.append(Case("watch-" + "-".join(ks), h_watcher, {"kinds": ks, "subs": "one"}, install=inst))
        # the same with gaps of 120 ms: every forward frame resolves what was pending before it, so each
        # pending command's window starts at its own arrival (two such gaps exceed one 200 ms window)
        for ks in (("query", "query", "backward"), ("config", "config", "config"), ("query", "config", "config"),
                   ("config", "query", "backward")):
            cs.append(Case("watch120-" + "-".join(ks), h_watcher, {"kinds": ks, "subs": "one", "short_gap": 0.12},
                           install=inst))
    else:
        lead = ["dapc", "query", "config", "edt", "extended", "cmd24", "event", "backward"]
        for k1 in lead:
            for k2 in KINDS:
                for k3 in ("dapc", "query", "config", "extended", "backward", "noframe", "framing"):
                    cs.append(Case("watch-%s-%s-%s" % (k1, k2, k3), h_watcher,
                                   {"kinds": (k1, k2, k3), "subs": "one"}, install=inst))
        for s in SUBS[1:]:
            for k1 in ("query", "config", "edt", "dapc"):
                for k2 in ("backward", "config", "extended", "query", "noframe"):
                    cs.append(Case("watch-%s-%s-%s" % (k1, k2, s), h_watcher, {"kinds": (k1, k2), "subs": s},
                                   install=inst))
    return cs
