"""C15 - async drivers keep transactions atomic and device-type prefixes adjacent."""
import asyncio

import z3

from symx import E, Case, vloop
from harness.common import call
from harness import rigs

import dali.frame as F
import dali.command as C
import dali.address as A
import dali.sequences as SQ
import dali.gear.general as gg
import dali.gear.led as led
import dali.gear.colour as colour
import dali.driver.hid as H
import dali.driver.serial as S
from dali.exceptions import CommunicationError

META = {
    "level_text": "Bounded symbolic exploration of schedules on the real coroutines: 2 (thorough 3) concurrent "
                  "callers - single sends and run_sequence with up to 3 items, with and without device types, "
                  "sleeps and progress items - run as real asyncio tasks on a virtual-time loop against the "
                  "real hid.send / hid.run_sequence / DriverSerialBase.run_sequence / LUBA and SCI send with "
                  "only the gateway layer replaced by a recording stub; how long each gateway call takes "
                  "(0..2 scheduler rounds), each caller's start delay, a gateway fault (CommunicationError) "
                  "and a cancellation point are solver-chosen variables, so every interleaving within those "
                  "bounds is explored; per path the wire log must be a concatenation of whole caller units "
                  "with every device-type command directly preceded by its own ENABLE DEVICE TYPE, every "
                  "caller finishes, the lock is free and every started sequence generator is closed. A second "
                  "stage encodes the extracted per-caller traces with integer timestamps and asks z3 to find "
                  "any schedule - under the lock's mutual-exclusion contract - that splits a unit (unsat).",
    "level_note": "Trusted: asyncio (event loop, Lock fairness and mutual exclusion), z3/cvc5, symx (each path "
                  "re-run concretely). The gateway layer (_send_raw / send_dali_command) is a stub here; its "
                  "own behaviour is C16/C17's subject. Liveness ('every caller eventually completes') is "
                  "claimed only within the explored bounds.",
    "explanation": "real driver coroutines as concurrent tasks under a virtual clock; schedule, faults and "
                   "cancellation as symbolic choice variables; stage 2: LIA encoding of interleavings",
    "bounds": ["library sequences (Commissioning x2, SetGroups) through hid/luba/sci cancelled after 0..30 rounds with a waiting caller; cancelled-then-lost x2 on the real Tridonic driver",
               "2 callers (thorough 3)", "caller kinds: send(dt=0), send(dt!=0), run_sequence of <= 3 items",
               "gateway call duration 0..2 rounds for the first 3 (thorough 5) gateway calls, start delay of the "
               "other callers 0..2 rounds (symbolic)",
               "one gateway fault, one cancellation (symbolic position), exceptions on/off",
               "drivers: HID (Tridonic and hasseb share hid.send/run_sequence), LUBA, SCI",
               "real gateway layer (nothing stubbed below the driver): LUBA / SCI driver + protocol object with "
               "two callers, one solver-chosen written frame answered by an error status or by silence; real "
               "Tridonic driver with a sequence sleeping inside its transaction, the adapter lost and "
               "reconnected during the sleep (or not), the other caller starting at one of five moments; both "
               "serial callers also with the same device type, optionally after a stray partial report; an "
               "unsupported frame handed to the real hasseb / Tridonic driver with exceptions off while another "
               "caller sends (busy-loop watchdog)"],
    "stubs": ["gateway layer replaced by a recording stub with symbolic duration/outcome"],
    "outside": ["more than 3 concurrent callers", "fairness of asyncio.Lock beyond the explored bounds",
                "interleavings inside the gateway layer (C16/C17)"],
    "assumptions": ["asyncio.Lock provides mutual exclusion (stage 2)"],
}


class Log:
    def __init__(self):
        self.emissions = []      # (caller, frame int, width)
        self.events = []         # ('acquire'|'release', caller)


def _fv(cmd):
    return cmd.frame.as_integer, len(cmd.frame)


# caller programs --------------------------------------------------------------------------------

def _seq(items, closed, raise_at=None):
    """A sequence generator yielding the given items."""
    def gen():
        try:
            for i, it in enumerate(items):
                if raise_at is not None and i == raise_at:
                    raise rigs._env(RuntimeError("sequence failed"))
                yield it
            return "done"
        finally:
            closed.append(True)
    return gen()


PROGRAMS = {
    "send-plain": [("send", lambda: gg.Off(A.GearShort(6)))],
    "send0": [("send", lambda: gg.QueryActualLevel(A.GearShort(1)))],
    "send6": [("send", lambda: led.QueryFeatures(A.GearShort(2)))],
    "send6b": [("send", lambda: led.QueryGearType(A.GearShort(9)))],
    "seq-plain": [("seq", lambda: [gg.DAPC(A.GearShort(3), 9), SQ.sleep(0.01), gg.QueryStatus(A.GearShort(3))])],
    "seq-dt": [("seq", lambda: [gg.DTR0(5), colour.Activate(A.GearShort(4)), SQ.progress(message="x"),
                                led.QueryGearType(A.GearShort(4))])],
    "seq-twice": [("seq", lambda: [gg.DTR0(7), colour.StoreColourTemperatureTcLimit(A.GearShort(5))])],
}


def _units_of(program):
    """Expected emissions of one program = one unit: [(frame, width)]."""
    out = []
    kind, mk = program[0]
    items = [mk()] if kind == "send" else mk()
    for it in items:
        if isinstance(it, C.Command):
            if it.devicetype != 0 and len(it.frame) == 16:
                out.append((0xC100 | it.devicetype, 16))
            out.append(_fv(it))
    return out


def _check_log(ctx, log, progs, finished, tag, retry_ok=False):
    """The wire log is a concatenation of whole caller units + EDT adjacency."""
    em = log.emissions
    # contiguity: the emissions of one caller form one block
    seen_done = set()
    prev = None
    for who, fv, w in em:
        if who != prev:
            ctx.prove(who not in seen_done, "frames of caller %s are interleaved with another caller's" % who,
                      key=tag + "/interleaved")
            if prev is not None:
                seen_done.add(prev)
            prev = who
    # EDT adjacency and unit content
    for who, prog in progs.items():
        mine = [(fv, w) for c, fv, w in em if c == who]
        want = _units_of(prog)
        if finished.get(who) == "ok":
            ctx.prove(mine == want or (retry_ok and _is_retry(mine, want) and mine[-len(want):] == want),
                      "caller %s emitted %s, expected %s"
                      % (who, [hex(f) for f, _ in mine], [hex(f) for f, _ in want]), key=tag + "/unit-content")
        else:
            # an aborted unit is a prefix of the full unit (and never ends between EDT and its command
            # unless the gateway failed there)
            ctx.prove(mine == want[:len(mine)] or _is_retry(mine, want), "caller %s emitted %s, not a prefix of its unit"
                      % (who, [hex(f) for f, _ in mine]), key=tag + "/unit-prefix")
    idx = 0
    for i, (who, fv, w) in enumerate(em):
        pass
    return


def _is_retry(mine, want):
    """With exceptions=False a failed single command is re-sent as a whole (incl. its ENABLE
    DEVICE TYPE): the emissions are a concatenation of non-empty prefixes of the unit."""
    i = 0
    while i < len(mine):
        k = 0
        while k < len(want) and i + k < len(mine) and mine[i + k] == want[k]:
            k += 1
        if k == 0:
            return False
        i += k
    return True


def _edt_adjacent(ctx, log, tag):
    em = log.emissions
    for i, (who, fv, w) in enumerate(em):
        if w != 16:
            continue
        # is this an application extended command (opcode 224..255 with selector bit, not a special command)?
        hi, lo = fv >> 8, fv & 0xFF
        if (hi & 1) == 1 and lo >= 224 and not (0xA0 <= hi <= 0xCB and (hi & 1)):
            ok = i > 0 and em[i - 1][0] == who and (em[i - 1][1] >> 8) == 0xC1
            ctx.prove(ok, "device-type command %04x of caller %s not directly preceded by its ENABLE DEVICE TYPE"
                      % (fv, who), key=tag + "/edt-missing")


# drivers under test -----------------------------------------------------------------------------------

class RecHid(H.hid):
    """hid base class with only the gateway layer replaced."""

    def __init__(self, rec):
        super().__init__("/dev/none")
        self.rec = rec

    def _initialise_device(self):
        self.connected.set()

    async def _send_raw(self, command):
        return await self.rec.gateway(command)


class Recorder:
    def __init__(self, ctx, log):
        self.ctx, self.log = ctx, log
        self.n = 0
        self.fail_at = None
        self.current = None
        self.sym_calls = 3

    async def gateway(self, command):
        i = self.n
        self.n += 1
        who = self.current_caller()
        self.log.emissions.append((who, command.frame.as_integer, len(command.frame)))
        # how long the gateway takes is a solver-chosen variable for the first calls
        d = self.ctx.fresh_choice("dur%d" % i, 3) if i < self.sym_calls else 1
        for _ in range(d):
            await asyncio.sleep(0)
        if self.fail_at is not None and i == self.fail_at:
            raise rigs._env(CommunicationError("gateway lost"))
        if command.response:
            return command.response(None)

    def current_caller(self):
        t = asyncio.current_task()
        return getattr(t, "caller_name", "?")


def _make_driver(kind, loop, rec):
    if kind == "hid":
        d = RecHid(rec)
        d.connect()
        return d
    d, p, t = (rigs.luba_driver if kind == "luba" else rigs.sci_driver)(loop)

    async def send_dali_command(tx):
        await rec.gateway(tx)
        return 0
    p.send_dali_command = send_dali_command
    # no answers arrive: keep the virtual wait short
    return d


async def _run_program(d, prog, closed, exceptions, raise_at):
    kind, mk = prog[0]
    if kind == "send":
        cmd = mk()
        if isinstance(d, H.hid):
            return await d.send(cmd, exceptions=exceptions)
        return await d.send(cmd)
    items = mk()
    return await d.run_sequence(_seq(items, closed, raise_at))


def h_schedule(ctx, driver, names, fault, sym_calls=3):
    log = Log()
    rec = Recorder(ctx, log)
    rec.sym_calls = sym_calls
    progs = {chr(65 + i): PROGRAMS[n] for i, n in enumerate(names)}
    closed = {k: [] for k in progs}
    out = {}
    exceptions = True
    raise_at = None
    cancel_who = None
    if fault == "gateway":
        rec.fail_at = ctx.fresh_choice("fail_at", 4)
        exceptions = ctx.fresh_bool("exceptions")
    elif fault == "cancel":
        cancel_who = "A"
        cancel_after = ctx.fresh_choice("cancel_after", 5)
    elif fault == "cancel-waiter":
        # the second caller is cancelled, typically while it is still queueing for the lock
        cancel_who = "B"
        cancel_after = ctx.fresh_choice("cancel_after", 4)
    elif fault == "seq-raises":
        raise_at = ctx.fresh_choice("raise_at", 3)

    async def main(loop):
        d = _make_driver(driver, loop, rec)
        tasks = {}
        for k, prog in progs.items():
            delay = ctx.fresh_choice("start_%s" % k, 3) if k != "A" else 0

            async def runner(k=k, prog=prog, delay=delay):
                for _ in range(delay):
                    await asyncio.sleep(0)
                return await _run_program(d, prog, closed[k], exceptions, raise_at if k == "A" else None)
            t = asyncio.ensure_future(runner())
            t.caller_name = k
            tasks[k] = t
        if cancel_who is not None:
            for _ in range(cancel_after):
                await asyncio.sleep(0)
            tasks[cancel_who].cancel()
        await asyncio.sleep(5.0)
        fin = {}
        for k, t in tasks.items():
            if not t.done():
                fin[k] = "pending"
                t.cancel()
            elif t.cancelled():
                fin[k] = "cancelled"
            elif t.exception() is not None:
                fin[k] = "exc:" + type(t.exception()).__name__
            else:
                fin[k] = "ok"
        out["fin"] = fin
        out["locked"] = d.transaction_lock.locked()
        if isinstance(d, H.hid):
            d.disconnect()
        await vloop.settle(2)
    st, r = call(vloop.run, main)
    tag = "%s/%s" % (driver, fault)
    if st == "exc":
        ctx.fail("harness run raised %r" % (r,), key=tag + "/run-raised:" + type(r).__name__)
        return "raised"
    fin = out["fin"]
    for k, v in fin.items():
        ctx.prove(v != "pending", "caller %s never completed" % k, key=tag + "/hang")
        if v.startswith("exc:"):
            expected = (fault == "gateway" and v == "exc:CommunicationError") or \
                       (fault == "seq-raises" and k == "A" and v == "exc:RuntimeError")
            ctx.prove(expected, "caller %s failed with %s" % (k, v), key=tag + "/unexpected-exception:" + v)
        if v == "cancelled":
            ctx.prove(k == cancel_who, "caller %s was cancelled by nobody" % k, key=tag + "/spurious-cancel")
    ctx.prove(out["locked"] is False, "transaction lock still held after every caller finished", key=tag + "/lock-held")
    _check_log(ctx, log, progs, fin, tag, retry_ok=(fault == "gateway" and not exceptions))
    _edt_adjacent(ctx, log, tag)
    for k, prog in progs.items():
        if prog[0][0] == "seq":
            started = any(c == k for c, _, _ in log.emissions) or fin[k] in ("ok", "exc:RuntimeError")
            if started:
                ctx.prove(len(closed[k]) == 1, "sequence generator of caller %s was not closed (%s)" % (k, fin[k]),
                          key=tag + "/not-closed")
    _stage2(ctx, log, progs, tag)
    return " ".join("%s=%s" % kv for kv in sorted(fin.items())) + " | " + "".join(c for c, _, _ in log.emissions)


LIBSEQS = {
    "commissioning": lambda: SQ.Commissioning(available_addresses=[5], readdress=True),
    "commissioning-new": lambda: SQ.Commissioning(available_addresses=[5, 6]),
    "set-groups": lambda: SQ.SetGroups(A.GearGroup(3), {1, 2}),
}


def h_library_sequence_cancel(ctx, driver, which):
    """One of the library's own sequences runs through the driver (nothing answers on the bus) and its caller is
    cancelled at a solver-chosen moment, while a second caller waits with a plain command: the cancellation
    ends the first caller as cancelled (the sequence lets itself be closed), the lock is released and the
    second caller's frame goes out after the first one's, not in between."""
    log = Log()
    rec = Recorder(ctx, log)
    rec.sym_calls = 0
    cancel_after = ctx.fresh("cancel_after", 0, 30)
    cancel_after = getattr(cancel_after, "concretize", lambda: cancel_after)()
    out = {}

    async def main(loop):
        d = _make_driver(driver, loop, rec)
        ta = asyncio.ensure_future(d.run_sequence(LIBSEQS[which]()))
        ta.caller_name = "A"
        await asyncio.sleep(0)
        tb = asyncio.ensure_future(d.send(gg.Off(A.GearShort(6))))
        tb.caller_name = "B"
        for _ in range(cancel_after):
            await asyncio.sleep(0)
        ta.cancel()
        await asyncio.sleep(5.0)
        fin = {}
        for k, t in (("A", ta), ("B", tb)):
            if not t.done():
                fin[k] = "pending"
                t.cancel()
            elif t.cancelled():
                fin[k] = "cancelled"
            elif t.exception() is not None:
                fin[k] = "exc:" + type(t.exception()).__name__
            else:
                fin[k] = "ok"
        out["fin"] = fin
        out["locked"] = d.transaction_lock.locked()
        if isinstance(d, H.hid):
            d.disconnect()
        await vloop.settle(2)
    st, r = call(vloop.run, main)
    tag = "%s/library-%s-cancelled" % (driver, which)
    if st == "exc":
        ctx.fail("harness run raised %r" % (r,), key=tag + "/run-raised:" + type(r).__name__)
        return "raised"
    fin = out["fin"]
    ctx.prove(fin["A"] in ("cancelled", "ok"), "the cancelled sequence caller ended as %s" % fin["A"],
              key=tag + "/cancel-outcome:" + fin["A"])
    ctx.prove(fin["B"] == "ok", "the waiting caller ended as %s" % fin["B"], key=tag + "/other-caller:" + fin["B"])
    ctx.prove(out["locked"] is False, "transaction lock still held", key=tag + "/lock-held")
    em = [c for c, _, _ in log.emissions]
    ctx.prove("B" in em and "A" not in em[em.index("B"):], "frames of the two callers are interleaved (%s)" % "".join(em),
              key=tag + "/interleaved")
    return "%s %s n=%d" % (fin["A"], fin["B"], len(em))


# real gateway layer ------------------------------------------------------------------------------

def h_real_sci(ctx, which, bprog="seq-dt"):
    """Two callers on the real LUBA / SCI driver *and* protocol object (only the serial line is a model): A
    sends a stand-alone device-type query, B runs a sequence with a device-type command.  The interface
    confirms every frame except a solver-chosen one, for which it reports an error (SCI: status code 7) or
    nothing at all; the bytes written to the line, read back per the wire format, must still be whole units
    with every device-type command directly behind its own ENABLE DEVICE TYPE."""
    log = Log()
    progs = {"A": PROGRAMS["send6"], "B": PROGRAMS[bprog]}
    closed = {k: [] for k in progs}
    bad_at = ctx.fresh_choice("bad_frame", 7)          # index of the written frame that is not confirmed (6 = none)
    bad_kind = ctx.fresh_choice("bad_kind", 2) if which == "sci" else 1     # 0: error status, 1: silence
    start_b = ctx.fresh_choice("start_B", 3)
    stray = ctx.fresh_bool("stray_partial_report")     # the line delivered the beginning of a report and went quiet
    out = {}
    owner = {}
    for k, prog in progs.items():
        for fv, w in _units_of(prog):
            if (fv >> 8) != 0xC1:
                owner[(fv, w)] = k

    async def main(loop):
        d, p, t = (rigs.luba_driver if which == "luba" else rigs.sci_driver)(loop)
        n = {"w": 0}

        def gateway(data):
            i = n["w"]
            n["w"] += 1
            if which == "luba":
                nb = data[4] // 8
                fb = list(data[6:6 + nb])
            else:
                mode = data[0] & 0x0F
                fb = list(data[1:3]) if mode == 3 else list(data[1:4])
            fv = 0
            for b in fb:
                fv = (fv << 8) | b
            log.emissions.append([None, fv, 8 * len(fb)])
            if i == bad_at:
                if bad_kind == 0:
                    loop.call_later(0.01, p.data_received, rigs.sci_frame(0x17, 0, 0, 1))
                return
            if which == "luba":
                loop.call_later(0.01, p.data_received, rigs.luba_event_tx(i & 0xFF, fb))
            else:
                loop.call_later(0.01, p.data_received, rigs.sci_frame(0x10, 0, 0, 0))
        t.on_write = gateway
        if stray:
            p.data_received([0x59] if which == "luba" else [0x10, 0x00])
        tasks = {}
        for k, prog in progs.items():
            async def runner(k=k, prog=prog):
                if k == "B":
                    await asyncio.sleep(0.004 * start_b)
                return await _run_program(d, prog, closed[k], True, None)
            tk = asyncio.ensure_future(runner())
            tasks[k] = tk
        await asyncio.sleep(8.0)
        fin = {}
        for k, tk in tasks.items():
            if not tk.done():
                fin[k] = "pending"
                tk.cancel()
            elif tk.exception() is not None:
                fin[k] = "exc:" + type(tk.exception()).__name__
            else:
                fin[k] = "ok"
        out["fin"] = fin
        out["locked"] = d.transaction_lock.locked() or rigs.held(p)["locks"] > 0
    st, r = call(vloop.run, main)
    tag = "%s-real" % which
    if st == "exc":
        ctx.fail("harness run raised %r" % (r,), key=tag + "/run-raised:" + type(r).__name__)
        return "raised"
    # attribute the frames on the wire: a command by its bits, an ENABLE DEVICE TYPE by the frame behind it
    em = log.emissions
    for i, e in enumerate(em):
        e[0] = owner.get((e[1], e[2]))
    for i, e in enumerate(em):
        if e[0] is None and (e[1] >> 8) == 0xC1 and e[2] == 16:
            e[0] = em[i + 1][0] if i + 1 < len(em) and em[i + 1][0] is not None else \
                (em[i - 1][0] if i > 0 else "?")
    log.emissions = [tuple(e) for e in em]
    fin = out["fin"]
    for k, v in fin.items():
        ctx.prove(v != "pending", "caller %s never completed" % k, key=tag + "/hang")
    ctx.prove(not out["locked"], "a lock is still held after every caller finished", key=tag + "/lock-held")
    _edt_adjacent(ctx, log, tag)
    prev, done = None, set()
    for who, fv, w in log.emissions:
        if who != prev:
            ctx.prove(who not in done, "frames of caller %s are interleaved with another caller's" % who,
                      key=tag + "/interleaved")
            if prev is not None:
                done.add(prev)
            prev = who
    if progs["B"][0][0] == "seq":
        ctx.prove(len(closed["B"]) == 1, "sequence generator was not closed", key=tag + "/not-closed")
    return " ".join("%s=%s" % kv for kv in sorted(fin.items())) + " | " + "".join(str(c) for c, _, _ in log.emissions)


def h_real_hid(ctx, bprog):
    """The real Tridonic driver (fake os, virtual clock).  Caller A runs a sequence that sleeps for two seconds
    in the middle of its transaction; the adapter may disappear and come back (reconnect interval 1 s) during
    that sleep; caller B starts at a solver-chosen moment - before, during or after the outage.  The 0x12
    reports written to the device must show A's frames as one block with the device-type command directly
    behind its ENABLE DEVICE TYPE, B's unit before or after it; everybody completes and the lock is free."""
    log = Log()
    seq_a = lambda: [gg.DTR0(5), SQ.sleep(2.0), led.QueryGearType(A.GearShort(4))]     # noqa
    progs = {"A": [("seq", seq_a)], "B": PROGRAMS[bprog]}
    closed = {k: [] for k in progs}
    lost = ctx.fresh_bool("lost_during_sleep")
    tb = [0.0, 0.3, 0.8, 1.7, 2.6][ctx.fresh_choice("start_B", 5)]
    out = {}
    owner = {}
    for k, prog in progs.items():
        for fv, w in _units_of(prog):
            if (fv >> 8) != 0xC1:
                owner[(fv, w)] = k
    with rigs.HidRig(ctx, 17) as rig:
        async def main(loop):
            d = H.tridonic("/dev/dali", reconnect_interval=1)

            def gateway(data):
                if data[0] == 0x01:
                    if data[1] == 0x00:
                        loop.call_soon(rig.deliver, loop, d, bytes([1, 0, 0, 1, 2] + [0] * 59))
                    else:
                        loop.call_soon(rig.deliver, loop, d, bytes([1, 1, 2, 3, 4] + [0] * 59))
                    return
                if data[0] != 0x12:
                    return
                s, mode = data[1], data[3]
                fr = list(data[4:8])
                fv, w = ((fr[2] << 8) | fr[3], 16) if mode == 3 else ((fr[1] << 16) | (fr[2] << 8) | fr[3], 24)
                log.emissions.append([None, fv, w])
                for _ in range(2 if (data[2] & 0x20) else 1):       # a send-twice frame is echoed twice
                    loop.call_soon(rig.deliver, loop, d,
                                   rigs.tridonic_report(0x12, 0x73 if mode == 3 else 0x76, fr, s))
                loop.call_soon(rig.deliver, loop, d, rigs.tridonic_report(0x12, 0x71, [0, 0, 0, 0], s))
            rig.os.on_write = gateway
            d.connect()
            await asyncio.sleep(0.2)
            t0 = loop.time()
            tasks = {}

            async def run_b():
                await asyncio.sleep(tb)
                return await _run_program(d, progs["B"], closed["B"], True, None)
            tasks["A"] = asyncio.ensure_future(_run_program(d, progs["A"], closed["A"], True, None))
            tasks["B"] = asyncio.ensure_future(run_b())
            if lost:
                await asyncio.sleep(0.5)
                rig.deliver(loop, d, b"")
            await asyncio.sleep(12.0)
            fin = {}
            for k, tk in tasks.items():
                if not tk.done():
                    fin[k] = "pending"
                    tk.cancel()
                elif tk.exception() is not None:
                    fin[k] = "exc:" + type(tk.exception()).__name__
                else:
                    fin[k] = "ok"
            out["fin"] = fin
            out["locked"] = d.transaction_lock.locked()
            d.disconnect()
            await vloop.settle(2)
        st, r = call(vloop.run, main)
    tag = "hid-real"
    if st == "exc":
        ctx.fail("harness run raised %r" % (r,), key=tag + "/run-raised:" + type(r).__name__)
        return "raised"
    em = log.emissions
    for e in em:
        e[0] = owner.get((e[1], e[2]))
    for i, e in enumerate(em):
        if e[0] is None and (e[1] >> 8) == 0xC1 and e[2] == 16:
            e[0] = em[i + 1][0] if i + 1 < len(em) and em[i + 1][0] is not None else (em[i - 1][0] if i > 0 else "?")
    log.emissions = [tuple(e) for e in em]
    fin = out["fin"]
    for k, v in fin.items():
        ctx.prove(v == "ok", "caller %s ended as %s" % (k, v), key=tag + "/" + ("hang" if v == "pending" else "failed"))
    ctx.prove(not out["locked"], "transaction lock still held after every caller finished", key=tag + "/lock-held")
    _check_log(ctx, log, progs, fin, tag)
    _edt_adjacent(ctx, log, tag)
    ctx.prove(len(closed["A"]) == 1, "sequence generator was not closed", key=tag + "/not-closed")
    return " ".join("%s=%s" % kv for kv in sorted(fin.items())) + " | " + "".join(str(c) for c, _, _ in log.emissions)


def h_unsupported_width(ctx, which):
    """One caller hands the real driver a frame it cannot carry and asked for no exceptions (= transparent
    retries on communication errors); another caller sends an ordinary command.  Both complete - the first
    with the refusal, which is not a communication error and cannot be cured by retrying - and the lock is free."""
    import dali.device.general as dgen
    from dali.exceptions import UnsupportedFrameTypeError
    out = {}
    with rigs.HidRig(ctx, 9) as rig:
        async def main(loop):
            if which == "hasseb":
                d = H.hasseb("/dev/hasseb")
                d.connect()
                await vloop.settle(2)
                bad = dgen.QueryDeviceStatus(A.DeviceShort(3))           # 24 bit: hasseb carries 16 only
                rig.os.on_write = lambda data: loop.call_soon(rig.deliver, loop, d, bytes([1, 0] + [0] * 8))
            else:
                d = await rigs.tridonic_connect(loop, rig)
                bad = rigs.make_command(F.ForwardFrame(25, 5))            # neither 16 nor 24 bit

                def gateway(data):
                    if data[0] != 0x12:
                        return
                    loop.call_soon(rig.deliver, loop, d, rigs.tridonic_report(0x12, 0x73, list(data[4:8]), data[1]))
                    loop.call_soon(rig.deliver, loop, d, rigs.tridonic_report(0x12, 0x71, [0, 0, 0, 0], data[1]))
                rig.os.on_write = gateway
            ta = asyncio.ensure_future(d.send(bad, exceptions=False))
            tb = asyncio.ensure_future(d.send(gg.DAPC(A.GearShort(3), 9)))
            await asyncio.sleep(3.0)
            res = {}
            for k, t in (("A", ta), ("B", tb)):
                if not t.done():
                    res[k] = "pending"
                    t.cancel()
                elif t.exception() is not None:
                    res[k] = t.exception()
                else:
                    res[k] = "ok"
            out["res"] = res
            out["locked"] = d.transaction_lock.locked()
            d.disconnect()
            await vloop.settle(2)
        st, r = call(vloop.run, main)
    tag = "%s/unsupported-width" % which
    if st == "exc":
        ctx.fail("the drivers never returned to the event loop / run raised %r" % (r,),
                 key=tag + "/run-raised:" + type(r).__name__)
        return "raised"
    res = out["res"]
    ctx.prove(isinstance(res["A"], UnsupportedFrameTypeError), "the caller with the unsupported frame ended as %r"
              % (res["A"],), key=tag + "/refusal")
    ctx.prove(res["B"] == "ok", "the other caller ended as %r" % (res["B"],), key=tag + "/other-caller")
    ctx.prove(not out["locked"], "transaction lock still held", key=tag + "/lock-held")
    return "A=%s B=%s" % (type(res["A"]).__name__ if not isinstance(res["A"], str) else res["A"], res["B"])


def _stage2(ctx, log, progs, tag):
    """Interleaving as integers: with per-caller traces acquire < emissions < release and
    mutual exclusion of the [acquire, release] intervals, can another caller's emission fall
    between two emissions of one unit?  (z3, linear integer arithmetic.)"""
    callers = sorted({c for c, _, _ in log.emissions})
    if len(callers) < 2:
        return
    s = z3.Solver()
    acq = {c: z3.Int("acq_" + c) for c in callers}
    rel = {c: z3.Int("rel_" + c) for c in callers}
    ems = {c: [z3.Int("em_%s_%d" % (c, i)) for i in range(sum(1 for x, _, _ in log.emissions if x == c))]
           for c in callers}
    for c in callers:
        prev = acq[c]
        for e in ems[c]:
            s.add(prev < e)
            prev = e
        s.add(prev < rel[c])
    for i, a in enumerate(callers):
        for b in callers[i + 1:]:
            s.add(z3.Or(rel[a] < acq[b], rel[b] < acq[a]))
    bad = []
    for a in callers:
        for b in callers:
            if a == b:
                continue
            for e in ems[b]:
                if len(ems[a]) >= 2:
                    bad.append(z3.And(ems[a][0] < e, e < ems[a][-1]))
    if not bad:
        return
    s.add(z3.Or(*bad))
    res = s.check()
    ctx.prove(res == z3.unsat, "a schedule splitting a caller's unit exists under the lock contract (%s)" % res,
              key=tag + "/stage2")


def h_cancelled_then_lost(ctx):
    """(shared with the gateway-loss check) sends cancelled mid-command, the adapter lost before it reported:
    afterwards every caller still completes and the lock is free."""
    from harness.c17_loss import h_tridonic_cancel_loss
    return h_tridonic_cancel_loss(ctx, 2)


def cases(tier):
    cs = []
    pairs = [("send0", "seq-dt"), ("send6", "seq-plain"), ("seq-dt", "seq-twice"), ("send6", "send0"),
             ("seq-plain", "seq-dt"), ("seq-dt", "send-plain"), ("send6", "send-plain")]
    # three callers: the one in the middle is cancelled while it waits for the lock
    for drv in ("hid", "luba", "sci"):
        for names in (("seq-dt", "seq-plain", "send0"), ("seq-plain", "send6", "send-plain")):
            cs.append(Case("%s-%s-cancel-waiter" % (drv, "+".join(names)), h_schedule,
                           {"driver": drv, "names": names, "fault": "cancel-waiter", "sym_calls": 2}))
    for drv in ("hid", "luba", "sci"):
        for names in pairs:
            for fault in ("none", "gateway", "cancel", "seq-raises"):
                if fault == "seq-raises" and not names[0].startswith("seq"):
                    continue
                if tier == "quick" and drv != "hid" and fault in ("cancel",) and names != pairs[0]:
                    continue
                cs.append(Case("%s-%s+%s-%s" % (drv, names[0], names[1], fault), h_schedule,
                               {"driver": drv, "names": names, "fault": fault,
                                "sym_calls": 3 if tier == "quick" else 5}))
        if tier != "quick":
            for names in (("send6", "seq-dt", "send0"), ("seq-plain", "seq-dt", "seq-twice")):
                for fault in ("none", "gateway"):
                    cs.append(Case("%s-%s-%s" % (drv, "+".join(names), fault), h_schedule,
                                   {"driver": drv, "names": names, "fault": fault}))
    for which in ("sci", "luba"):
        cs.append(Case("%s-real-layer" % which, h_real_sci, {"which": which}))
        # both callers use the same device type: nothing remembered about one caller's prefix may stand in
        # for the other's
        cs.append(Case("%s-real-layer-same-dt" % which, h_real_sci, {"which": which, "bprog": "send6b"}))
    for which in ("hasseb", "tridonic"):
        cs.append(Case("%s-unsupported-width-noexc" % which, h_unsupported_width, {"which": which},
                       install=rigs.install_tridonic_structs))
    for drv in ("hid", "luba", "sci"):
        for which in LIBSEQS:
            if drv != "hid" and which != "commissioning" and tier == "quick":
                continue
            cs.append(Case("%s-library-%s-cancelled" % (drv, which), h_library_sequence_cancel,
                           {"driver": drv, "which": which}))
    cs.append(Case("tridonic-cancelled-then-lost", h_cancelled_then_lost, {}, install=rigs.install_tridonic_structs))
    for bprog in ("send-plain", "send6", "seq-twice"):
        cs.append(Case("hid-real-layer-%s" % bprog, h_real_hid, {"bprog": bprog},
                       install=rigs.install_tridonic_structs))
    return cs
