"""C14 - colour (DT8) sequences carry 16-bit values byte-exactly and in order."""
from symx import E, Case
from harness.common import call
from spec import models as M

import dali.frame as F
import dali.address as A
import dali.gear.sequences as GS
import dali.gear.colour as colour

META = {
    "level_text": "Bounded symbolic verification of the DT8 sequences against a specification model of a "
                  "colour-temperature unit acting on the frame bits: for every tc in -1..65537 (symbolic), "
                  "every destination kind and symbolic stale DTR contents, z3 shows the bus carries exactly "
                  "DTR0(low), DTR1(high)[, DTR2(selector)], ENABLE DEVICE TYPE 8 + the DT8 command[, ENABLE "
                  "DEVICE TYPE 8 + ACTIVATE] and that the unit ends with exactly tc; for every query selector "
                  "and symbolic 16-bit stored value the query returns it, and None on MASK / silence / "
                  "framing error on either byte; illegal arguments raise before anything is sent.",
    "level_note": "Trusted: the unit model in /verif/spec/models.py (IEC 62386-209 commands 226, 231, 242, 250 "
                  "on frame bits; ENABLE DEVICE TYPE prefix inserted by the bus model as a driver does), "
                  "z3/cvc5, symx semantics (each path re-run concretely).",
    "explanation": "symbolic execution of SetDT8ColourValueTc / SetDT8TcLimit / QueryDT8ColourValue driven "
                   "against the model; bus transcript and final unit state compared by unsat queries",
    "bounds": ["tc -1..65537 symbolic", "destinations: short / group / broadcast / plain int, symbolic numbers",
               "all 83 query selectors + non-members", "stored value 0..65535 symbolic",
               "faults: silence or framing error on the MSB or LSB answer", "limit selectors 0..3",
               "the unit's answer to the opening QUERY ACTUAL LEVEL is any level 0..255 (symbolic)",
               "two runs in one process against independent units with independent stale DTRs: set/set, "
               "limit/limit, limit/set"],
    "stubs": ["isinstance/int shims", "SymInt.to_bytes / int.from_bytes models"],
    "outside": ["units that do not conform to 209", "limit selectors outside the enum (the property does not "
                "require their rejection)"],
    "assumptions": [],
}

DESTS = ["short", "group", "broadcast", "int"]


def _hi(fv):
    """First byte of a 16-bit frame value (concrete for DTR loads: forks if not)."""
    h = fv >> 8
    if isinstance(h, int):
        return h
    for c in (0xA3, 0xC3, 0xC5):
        if h == c:
            return c
    return 0


def _dest(ctx, kind):
    """(destination argument, unit short, unit groups, 7 address bits)"""
    if kind in ("short", "int"):
        n = ctx.fresh("a", 0, 63)
        return (n if kind == "int" else A.GearShort(n)), n, 0, n
    if kind == "group":
        g = ctx.fresh("a", 0, 15)
        return A.GearGroup(g), 5, 1 << g, 0x40 | g
    return A.GearBroadcast(), 7, 0, 0x7F


def _unit(ctx, short, groups):
    return M.Unit("gear", short=short, groups=groups, devtypes=[8],
                  dtr0=ctx.fresh("dtr0", 0, 255), dtr1=ctx.fresh("dtr1", 0, 255),
                  dtr2=ctx.fresh("dtr2", 0, 255))


def _frames_equal(ctx, bus, want, tag, ndtr=0):
    """The first `ndtr` frames are DTR loads whose relative order is free."""
    got = list(bus.frames)
    if ndtr and len(got) >= ndtr:
        # sort the DTR-load prefix by register (first byte is concrete)
        got[:ndtr] = sorted(got[:ndtr], key=lambda fw: (fw[0] >> 8) if isinstance(fw[0], int)
                            else int(str((fw[0] >> 8))) if False else _hi(fw[0]))
        want = sorted(want[:ndtr], key=_hi) + want[ndtr:]
    if len(got) != len(want):
        ctx.fail("bus carried %d frames, expected %d" % (len(got), len(want)), key=tag + "/frame-count")
        return
    for i, ((fv, w), wv) in enumerate(zip(got, want)):
        ctx.prove(w == 16 and E.eq(fv, wv), "frame %d on the bus differs from the expected sequence" % i,
                  key=tag + "/frame%d" % i)


def h_set_tc(ctx, dk):
    tc = ctx.fresh("tc", -1, 65537)
    dest, short, groups, a7 = _dest(ctx, DESTS[dk])
    u = _unit(ctx, short, groups)
    other = M.Unit("gear", short=63 if short != 63 else 62, devtypes=[8])   # must stay untouched
    bus = M.Bus([u, other])
    st, r = bus.run(GS.SetDT8ColourValueTc(dest, tc))
    legal = E.between(0, tc, 65535)
    if st == "exc":
        ctx.prove(E.not_(legal), "legal colour temperature rejected: %r" % (r,), key="settc/legal-rejected")
        ctx.prove(len(bus.frames) == 0, "frames were sent before the rejection", key="settc/sent-before-reject")
        return "reject:" + type(r).__name__
    ctx.prove(legal, "colour temperature that does not fit 16 bits accepted", key="settc/illegal-accepted")
    t = E.ite(legal, tc, 0)
    want = [0xA300 | (t & 0xFF), 0xC300 | (t >> 8), 0xC108, (a7 << 9) | 0x100 | 231,
            0xC108, (a7 << 9) | 0x100 | 226]
    _frames_equal(ctx, bus, want, "settc", ndtr=2)
    ctx.prove(E.eq(u.tc, t), "unit does not end with the requested colour temperature", key="settc/unit-tc")
    if DESTS[dk] != "broadcast":
        ctx.prove(E.eq(other.tc, 0xFFFF), "another unit was changed", key="settc/other-unit")
    ctx.observe("tc", u.tc)
    return "ok"


def h_limit(ctx, dk):
    tc = ctx.fresh("tc", -1, 65537)
    members = list(colour.StoreColourTemperatureTcLimitDTR2)
    mi = ctx.fresh_choice("sel", len(members))
    sel = members[mi] if ctx.fresh_bool("enum") else int(members[mi])
    dest, short, groups, a7 = _dest(ctx, DESTS[dk])
    u = _unit(ctx, short, groups)
    bus = M.Bus([u])
    st, r = bus.run(GS.SetDT8TcLimit(dest, sel, tc))
    legal = E.between(0, tc, 65535)
    if st == "exc":
        ctx.prove(E.not_(legal), "legal colour temperature rejected: %r" % (r,), key="limit/legal-rejected")
        ctx.prove(len(bus.frames) == 0, "frames were sent before the rejection", key="limit/sent-before-reject")
        return "reject"
    ctx.prove(legal, "colour temperature that does not fit 16 bits accepted", key="limit/illegal-accepted")
    t = E.ite(legal, tc, 0)
    want = [0xA300 | (t & 0xFF), 0xC300 | (t >> 8), 0xC500 | int(members[mi]), 0xC108,
            (a7 << 9) | 0x100 | 242, (a7 << 9) | 0x100 | 242]
    _frames_equal(ctx, bus, want, "limit", ndtr=3)
    for k in range(4):
        if k == int(members[mi]):
            ctx.prove(E.eq(u.tc_limits[k], t), "limit %d not stored exactly" % k, key="limit/stored")
        else:
            ctx.prove(E.eq(u.tc_limits[k], 0xFFFF), "limit %d changed" % k, key="limit/other-limit")
    return "ok"


def h_limit_then_set(ctx, dk):
    with ctx.namespace("l."):
        a = h_limit(ctx, dk)
    b = h_set_tc(ctx, dk)
    return "%s | %s" % (a, b)


def h_query(ctx, group):
    members = list(colour.QueryColourValueDTR)
    lo, hi = group
    sel = members[lo + ctx.fresh_choice("sel", hi - lo)]
    v = ctx.fresh("v", 0, 0xFFFF)
    addr_int = ctx.fresh_bool("addr_int")
    a = ctx.fresh("a", 0, 63)
    fm = ctx.fresh_choice("fault_msb", 3)
    fl = ctx.fresh_choice("fault_lsb", 3)
    u = _unit(ctx, a, 0)
    u.colour_values = {int(sel.value): v}
    # the opening QUERY ACTUAL LEVEL is answered with whatever level the unit is at, incl. 255 (lamp
    # failure / start-up): that answer says nothing about the colour value
    u.level = ctx.fresh("level", 0, 255)

    def fault(n, cmd, raw):
        which = None
        if n == 2:
            which = fm
        elif n == 3:
            which = fl
        if which == 1:
            return None
        if which == 2 and raw is not None:
            return F.BackwardFrameError(raw.as_integer)
        return raw
    bus = M.Bus([u], fault=fault)
    st, r = bus.run(GS.QueryDT8ColourValue(a if addr_int else A.GearShort(a), sel))
    if st == "exc":
        ctx.fail("query raised %r" % (r,), key="query/raised")
        return "exc"
    msb_mask = E.eq(v >> 8, 255)
    if fm != 0 or fl != 0:
        ctx.prove(r is None, "value %r returned although an answer was missing/garbled" % (r,),
                  key="query/fault-not-none:msb%d-lsb%d" % (fm, fl))
        return "fault"
    if r is None:
        ctx.prove(msb_mask, "None returned for a reportable value", key="query/none-for-value")
        return "MASK"
    ctx.prove(E.not_(msb_mask), "value returned although the unit reported MASK", key="query/mask-as-value")
    ctx.prove(E.eq(r, v), "query returned another value than the unit stores", key="query/value")
    # the transcript: QUERY ACTUAL LEVEL, DTR0(selector), EDT8 + QUERY COLOUR VALUE, QUERY CONTENT DTR0
    want = [(a << 9) | 0x100 | 0xA0, 0xA300 | int(sel.value), 0xC108, (a << 9) | 0x100 | 250,
            (a << 9) | 0x100 | 0x98]
    _frames_equal(ctx, bus, want, "query")
    ctx.observe("value", r)
    return "value"


def h_query_badsel(ctx):
    n = 0
    for bad in (2, 0, 255, "XCoordinate", None, colour.StoreColourTemperatureTcLimitDTR2.TcCoolest,
                colour.AssignedColour.red, 2.0):
        u = M.Unit("gear", short=1, devtypes=[8])
        bus = M.Bus([u])
        st, r = bus.run(GS.QueryDT8ColourValue(A.GearShort(1), bad))
        ctx.prove(st == "exc" and isinstance(r, TypeError), "selector %r gave %r" % (bad, r),
                  key="query/badsel:%s" % type(bad).__name__)
        ctx.prove(len(bus.frames) == 0, "frames were sent before the selector was rejected",
                  key="query/badsel-sent")
        n += 1
    for bad in ("100", None, 2.5):
        for seq in (lambda: GS.SetDT8ColourValueTc(A.GearShort(1), bad),
                    lambda: GS.SetDT8TcLimit(A.GearShort(1), 0, bad)):
            bus = M.Bus([M.Unit("gear", short=1, devtypes=[8])])
            st, r = bus.run(seq())
            ctx.prove(st == "exc" and len(bus.frames) == 0, "tc %r gave %r after %d frames"
                      % (bad, r, len(bus.frames)), key="settc/badtype:%s" % type(bad).__name__)
            n += 1
    return "n=%d" % n


def cases(tier):
    cs = [Case("set-tc-%s" % DESTS[k], h_set_tc, {"dk": k}) for k in range(4)]
    cs += [Case("limit-%s" % DESTS[k], h_limit, {"dk": k}) for k in range(4)]
    # the same sequence twice in one process, against units with independent (stale) DTR contents: nothing
    # remembered from the first run may be relied on in the second
    cs += [Case("set-tc-twice-%s" % DESTS[k], h_set_tc, {"dk": k}, repeat=2) for k in (0, 2)]
    cs += [Case("limit-twice-%s" % DESTS[k], h_limit, {"dk": k}, repeat=2) for k in (0, 3)]
    cs += [Case("limit-then-set-%s" % DESTS[k], h_limit_then_set, {"dk": k}) for k in (0,)]
    n = len(list(colour.QueryColourValueDTR))
    step = 12
    for lo in range(0, n, step):
        cs.append(Case("query-%d" % lo, h_query, {"group": (lo, min(n, lo + step))}))
    cs.append(Case("bad-arguments", h_query_badsel, {}))
    return cs
