"""C03 - emitted frames and command flags conform to the IEC 62386 tables."""
import importlib

from symx import E, Case
from harness.common import call, newdict, event_map, command_classes
from spec import iec_tables as T

import dali.frame as F
import dali.command as C
import dali.address as A
import dali.gear, dali.device  # noqa
import dali.device.general as dg
import dali.device.pushbutton, dali.device.occupancy, dali.device.light  # noqa
import dali.gear.colour, dali.gear.converter, dali.gear.emergency  # noqa
import dali.gear.incandescent, dali.gear.led, dali.gear.general  # noqa

META = {
    "level_text": "Bounded symbolic comparison of the library with an independently transcribed table of "
                  "IEC 62386 parts 102/103/202/205/206/207/209/301/303/304 (335 rows): for every row, every "
                  "destination kind, every instance kind and symbolic numbers/parameters, z3 shows the frame "
                  "built by the real constructor equals the table encoder's frame for all values, the "
                  "table-encoded frame decodes to the class of that name under the row's device type, and "
                  "the send-twice / answer / device-type flags equal the row; every library command class "
                  "must have a row.",
    "level_note": "Trusted: the transcription in /verif/spec/iec_tables.py (from the standard's tables, not "
                  "from the library; cells the transcriber is unsure of are None and not asserted - listed in "
                  "evidence), z3/cvc5, symx semantics (each path re-run concretely).",
    "explanation": "symbolic execution of every command/event constructor and of from_frame on table-built "
                   "frames; frame equality and class identity are obligations per path",
    "bounds": ["all rows of the table x all address kinds x all instance kinds (except Device 0xFE)",
               "address/group/instance numbers, 4-bit and 8-bit parameters over their full range (symbolic)",
               "events: 5 schemes x symbolic source fields x symbolic data",
               "every table frame is first decoded under another device type (8, or 0 for rows that need a "
               "device type), then under the row's own",
               "device/instance-scheme event frames are decoded through a map naming the type (and must be "
               "ambiguous without an entry)",
               "per row a second, live object of the class (fixed other arguments, constructed and decoded) "
               "before the first one's frame is read: commands must not share frame state"],
    "stubs": ["isinstance/int shims", "SymDict registries"],
    "outside": ["appctrl/inputdev/uses_dtr* documentation flags", "parts of IEC 62386 the library does not implement",
                "send-twice of 202 control commands 224-232/240/254 and of 209 START AUTO CALIBRATION "
                "(not asserted: transcriber unsure of the standard's value)"],
    "assumptions": ["the CamelCase class names follow the library's documented naming convention for the "
                    "standard's command names"],
}


def _cls(part, name):
    mod = importlib.import_module(T.MODULE_OF_PART[part])
    return getattr(mod, name, None)


GEAR_KINDS = ["short", "group", "broadcast", "unaddressed", "int"]
DEV_KINDS = ["short", "group", "broadcast", "unaddressed"]
INST_KINDS = list(T.INSTANCE)
INST_CLS = {"number": A.InstanceNumber, "group": A.InstanceGroup, "type": A.InstanceType,
            "feature_number": A.FeatureInstanceNumber, "feature_group": A.FeatureInstanceGroup,
            "feature_type": A.FeatureInstanceType, "feature_broadcast": A.FeatureInstanceBroadcast,
            "broadcast": A.InstanceBroadcast, "feature_device": A.FeatureDevice}


def _gear_dest(ctx, kind):
    if kind in ("short", "int"):
        n = ctx.fresh("a", 0, 63)
        return (n if kind == "int" else A.GearShort(n)), T.GEAR_ADDR["short"][1](n)
    if kind == "group":
        n = ctx.fresh("a", 0, 15)
        return A.GearGroup(n), T.GEAR_ADDR["group"][1](n)
    if kind == "broadcast":
        return A.GearBroadcast(), 0x7F
    return A.GearBroadcastUnaddressed(), 0x7E


def _dev_dest(ctx, kind):
    if kind == "short":
        n = ctx.fresh("a", 0, 63)
        return A.DeviceShort(n), n
    if kind == "group":
        n = ctx.fresh("a", 0, 31)
        return A.DeviceGroup(n), 0x40 | n
    if kind == "broadcast":
        return A.DeviceBroadcast(), 0x7F
    return A.DeviceBroadcastUnaddressed(), 0x7E


def _instance(ctx, kind):
    has, enc = T.INSTANCE[kind]
    if has:
        n = ctx.fresh("i", 0, 31)
        return INST_CLS[kind](n), enc(n)
    return INST_CLS[kind](), enc(None)


def _flags(ctx, cls, row, tag):
    part, name, kind, code, param, twice, answer, devtype = row
    if twice is not None:
        ctx.prove(bool(cls.sendtwice) is twice, "sendtwice=%r, table says %r" % (cls.sendtwice, twice),
                  key=tag + "/sendtwice")
    else:
        ctx.note("unasserted-sendtwice:%d:%s" % (part, name))
    resp = cls.response
    if answer is None:
        ctx.prove(resp is None, "command expects an answer (%r), table says none" % (resp,),
                  key=tag + "/answer-none")
    else:
        ctx.prove(resp is not None, "command expects no answer, table says %s" % answer,
                  key=tag + "/answer-missing")
        if resp is not None and answer in ("yn", "byte"):
            isyn = issubclass(resp, C.YesNoResponse)
            ctx.prove(isyn == (answer == "yn"), "answer kind: response class %s, table says %s"
                      % (resp.__name__, answer), key=tag + "/answer-kind")
    ctx.prove(cls.devicetype == devtype, "devicetype=%r, table says %r" % (cls.devicetype, devtype),
              key=tag + "/devicetype")


def _decode_is(ctx, bits, value, devtype, cls, tag):
    # the same bits decoded under another device type first: what a frame means under one device
    # type must not leak into a later decode under another (e.g. through a cache keyed by the bits)
    call(C.from_frame, F.ForwardFrame(bits, value), devicetype=(8 if devtype == 0 else 0))
    st, d = call(C.from_frame, F.ForwardFrame(bits, value), devicetype=devtype)
    ctx.prove(st == "ok" and type(d) is cls,
              "table frame decodes to %s" % (type(d).__name__ if st == "ok" else repr(d)),
              key=tag + "/decode")
    if st == "ok":
        q = d.is_query
        ctx.prove(q == (cls.response is not None), "is_query inconsistent", key=tag + "/is_query")


def _sibling(kind, code, param):
    """Fixed legal arguments for a second object of the row's class and its table encoding."""
    if kind == "dapc":
        return (A.GearShort(42), 77), T.encode16(kind, code, T.GEAR_ADDR["short"][1](42), 77)
    if kind == "std":
        p = 9 if param == "n4" else None
        a7 = T.GEAR_ADDR["group"][1](11)
        return ((A.GearGroup(11), p) if p is not None else (A.GearGroup(11),)), T.encode16(kind, code, a7, p)
    if kind == "special" and param == "byte":
        return (0x5A,), T.encode16("special", code, None, 0x5A)
    if kind == "special" and param == "short":
        return (37,), T.encode16("special", code, None, (37 << 1) | 1)
    if kind == "dev":
        return (A.DeviceGroup(19),), T.encode24("dev", code, 0x40 | 19)
    if kind == "inst":
        has, enc = T.INSTANCE["number"]
        return (A.DeviceShort(50), INST_CLS["number"](27)), T.encode24("inst", code, 50, enc(27))
    if kind == "dspecial" and param is not None:
        return (0xA5,), T.encode24("dspecial", code, p1=0xA5)
    if kind == "dspecial2":
        return (0x12, 0xED), T.encode24("dspecial2", code, p1=0x12, p2=0xED)
    return None


def h_row(ctx, idx):
    row = T.ROWS[idx]
    part, name, kind, code, param, twice, answer, devtype = row
    tag = "%d/%s" % (part, name)
    cls = _cls(part, name)
    if cls is None:
        ctx.fail("no class %s in %s" % (name, T.MODULE_OF_PART[part]), key=tag + "/missing-class")
        return "missing"
    _flags(ctx, cls, row, tag)
    if kind in ("dapc", "std"):
        ak = GEAR_KINDS[ctx.fresh_choice("ak", len(GEAR_KINDS))]
        dest, a7 = _gear_dest(ctx, ak)
        if kind == "dapc":
            p = ctx.fresh("p", 0, 255)
            args = (dest, p)
        elif param == "n4":
            p = ctx.fresh("p", 0, 15)
            args = (dest, p)
        else:
            p = None
            args = (dest,)
        want = T.encode16(kind, code, a7, p)
        bits = 16
    elif kind == "special":
        bits = 16
        if param is None:
            args, p = (), None
        elif param == "byte":
            p = ctx.fresh("p", 0, 255)
            args = (p,)
        elif param == "short":
            if ctx.fresh_bool("mask"):
                args, p = ("MASK",), 0xFF
            else:
                n = ctx.fresh("a", 0, 63)
                args, p = (n,), (n << 1) | 1
        elif param == "init":
            v = ctx.fresh_choice("init", 3)
            if v == 0:
                st, c = call(cls, broadcast=True)
                p = T.init_byte(("all",))
            elif v == 1:
                st, c = call(cls)
                p = T.init_byte(("unaddressed",))
            else:
                n = ctx.fresh("a", 0, 63)
                st, c = call(cls, address=n)
                p = T.init_byte(("short", n))
            args = None
        want = T.encode16("special", code, None, p)
    elif kind == "dev":
        bits = 24
        ak = DEV_KINDS[ctx.fresh_choice("ak", len(DEV_KINDS))]
        dest, a7 = _dev_dest(ctx, ak)
        args = (dest,)
        want = T.encode24("dev", code, a7)
    elif kind == "inst":
        bits = 24
        ak = DEV_KINDS[ctx.fresh_choice("ak", len(DEV_KINDS))]
        ik = INST_KINDS[ctx.fresh_choice("ik", len(INST_KINDS))]
        dest, a7 = _dev_dest(ctx, ak)
        inst, ib = _instance(ctx, ik)
        args = (dest, inst)
        want = T.encode24("inst", code, a7, ib)
    elif kind == "dspecial":
        bits = 24
        if param is None:
            args, p = (), None
        else:
            p = ctx.fresh("p", 0, 255)
            args = (p,)
        want = T.encode24("dspecial", code, p1=p)
    elif kind == "dspecial2":
        bits = 24
        p1 = ctx.fresh("p1", 0, 255)
        p2 = ctx.fresh("p2", 0, 255)
        args = (p1, p2)
        want = T.encode24("dspecial2", code, p1=p1, p2=p2)
    else:
        raise AssertionError(kind)
    if args is not None:
        st, c = call(cls, *args)
    if st == "exc":
        ctx.fail("constructor rejected legal arguments: %r" % (c,), key=tag + "/ctor")
        return "ctor-exc"
    # a second, live object of the same class with other (fixed) arguments, built and decoded before
    # the first one's frame is read: two commands must never share mutable frame state
    sib = _sibling(kind, code, param)
    if sib is not None:
        args2, want2 = sib
        st2, c2 = call(cls, *args2)
        st3, d2 = call(C.from_frame, F.ForwardFrame(bits, want2), devicetype=devtype)
        ctx.prove(st2 == "ok" and E.eq(c2.frame.as_integer, want2),
                  "a second command of the class (fixed arguments) has the wrong frame", key=tag + "/sibling-frame")
        ctx.prove(st3 == "ok" and E.eq(d2.frame.as_integer, want2),
                  "a decoded second command of the class has the wrong frame", key=tag + "/sibling-decoded")
    ctx.prove(E.eq(c.frame.__len__(), bits), "frame size is not %d" % bits, key=tag + "/size")
    ctx.prove(E.eq(c.frame.as_integer, want), "frame differs from the standard's encoding",
              key=tag + "/frame")
    _decode_is(ctx, bits, want, devtype, cls, tag)
    ctx.observe("frame", c.frame.as_integer)
    return "ok"


SCHEMES = ["device", "device_instance", "device_group", "instance", "instance_group"]


def h_event(ctx, idx):
    part, name, itype, code = T.EVENTS[idx]
    tag = "%d/%s" % (part, name)
    cls = _cls(part, name)
    if cls is None:
        ctx.fail("no event class %s" % name, key=tag + "/missing-class")
        return "missing"
    scheme = SCHEMES[ctx.fresh_choice("scheme", 5)]
    if code is not None:
        data, dkw = code, {}
    elif name == "OccupancyEvent":
        data = ctx.fresh("d", 0, 15)
        dkw = {"data": data}
    else:
        data = ctx.fresh("d", 0, 1023)
        dkw = {"data": data}
    kw, fields = {}, {}
    if scheme in ("device", "device_instance"):
        sa = ctx.fresh("sa", 0, 63)
        kw["short_address"] = A.DeviceShort(sa) if ctx.fresh_bool("sa_obj") else sa
        fields["short"] = sa
    if scheme in ("device_instance", "instance"):
        n = ctx.fresh("n", 0, 31)
        kw["instance_number"] = n
        fields["inst_number"] = n
    if scheme == "device_group":
        g = ctx.fresh("g", 0, 31)
        kw["device_group"] = g
        fields["dev_group"] = g
    if scheme == "instance_group":
        g = ctx.fresh("g", 0, 31)
        kw["instance_group"] = g
        fields["inst_group"] = g
    kw.update(dkw)
    st, ev = call(cls, **kw)
    if st == "exc":
        ctx.fail("event constructor rejected legal arguments: %r" % (ev,), key=tag + "/ctor:" + scheme)
        return "ctor-exc"
    want = T.encode_event(scheme, itype, data, **fields)
    ctx.prove(E.eq(ev.frame.__len__(), 24), "event frame is not 24 bits", key=tag + "/size")
    ctx.prove(E.eq(ev.frame.as_integer, want), "event frame differs from 103 Table 3 (%s scheme)" % scheme,
              key=tag + "/frame:" + scheme)
    ctx.prove(cls.response is None and not cls.sendtwice, "event has command flags", key=tag + "/flags")
    if scheme != "device_instance":
        st, d = call(C.from_frame, F.ForwardFrame(24, want))
        ctx.prove(st == "ok" and type(d) is cls, "table event frame decodes to %s"
                  % (type(d).__name__ if st == "ok" else repr(d)), key=tag + "/decode:" + scheme)
    else:
        # the frame carries no instance type: decoded through a map (built with the real add_type) that
        # names it, the table frame must come back as this class; without an entry as ambiguous
        import dali.device.helpers as helpers
        import dali.device.general as dg
        m = event_map(ctx)
        st, d = call(C.from_frame, F.ForwardFrame(24, want), dev_inst_map=m)
        ctx.prove(st == "ok" and type(d) is dg.AmbiguousInstanceType,
                  "device/instance table frame without a map entry decodes to %s, not AmbiguousInstanceType"
                  % (type(d).__name__ if st == "ok" else repr(d)), key=tag + "/decode-nomap:" + scheme)
        m.add_type(short_address=fields["short"], instance_number=fields["inst_number"], instance_type=itype)
        st, d = call(C.from_frame, F.ForwardFrame(24, want), dev_inst_map=m)
        ctx.prove(st == "ok" and type(d) is cls, "device/instance table frame decodes (through a map naming "
                  "its type) to %s" % (type(d).__name__ if st == "ok" else repr(d)),
                  key=tag + "/decode:" + scheme)
    ctx.observe("frame", ev.frame.as_integer)
    return scheme


def h_inventory(ctx):
    rows = {(T.MODULE_OF_PART[r[0]], r[1]) for r in T.ROWS}
    rows |= {(T.MODULE_OF_PART[e[0]], e[1]) for e in T.EVENTS}
    missing = []
    for c in command_classes():
        if c.__name__ in T.NOT_IN_TABLES:
            continue
        if (c.__module__, c.__name__) not in rows:
            missing.append("%s.%s" % (c.__module__, c.__name__))
    ctx.prove(not missing, "library command classes without a table row (unchecked): %s" % missing,
              key="inventory/unchecked:" + ",".join(missing[:3]))
    dup = len(T.ROWS) - len({(r[0], r[1]) for r in T.ROWS})
    ctx.prove(dup == 0, "duplicate table rows", key="inventory/dup")
    return "rows=%d events=%d classes=%d" % (len(T.ROWS), len(T.EVENTS), len(command_classes()))


def cases(tier):
    cs = [Case("inventory", h_inventory, {})]
    for i, r in enumerate(T.ROWS):
        cs.append(Case("row-%d-%s" % (r[0], r[1]), h_row, {"idx": i}))
    for i, e in enumerate(T.EVENTS):
        cs.append(Case("event-%s" % e[1], h_event, {"idx": i}))
    return cs
