"""Helpers shared by the harnesses (mode-agnostic: work on SymInt and int)."""
from symx import E
from symx.core import SymInt, EngineUnsupported, PathEnd, ShardSkip, Budget

ENGINE_EXC = (EngineUnsupported, PathEnd, ShardSkip, Budget)


def exc_name(e):
    return type(e).__name__


_HERE = __import__("os").path.dirname(__import__("os").path.dirname(__import__("os").path.abspath(__file__)))


def raised_in_harness(e):
    """True when the exception was raised by a frame of /verif code (harness, rigs, models, engine) rather than
    by the library: an AttributeError because a private attribute the harness reads was renamed, a bug in a
    model.  Such an exception says nothing about the property."""
    tb = e.__traceback__
    last = None
    while tb is not None:
        last = tb
        tb = tb.tb_next
    if last is None:
        return False
    # only the exception classes that mean "the harness looked for something that is not there": the shims
    # and proxies of the engine raise ValueError / TypeError / OverflowError on the library's behalf, and a
    # TypeError for a wrong argument list is raised in the caller's (= the harness') frame
    if not isinstance(e, (AttributeError, NameError, ImportError)):
        return False
    fn = last.tb_frame.f_code.co_filename
    return fn.startswith(_HERE + __import__("os").sep)


def call(fn, *a, **k):
    """Run fn; return ('ok', result) or ('exc', exception).  Engine control
    exceptions are BaseException and pass through.  An exception raised by harness code itself (not by the
    library) is not a finding: it ends the path as unsupported (exit 2)."""
    try:
        return "ok", fn(*a, **k)
    except Exception as e:  # noqa
        if raised_in_harness(e) and not getattr(e, "_from_library", False):
            raise EngineUnsupported("harness error: %r" % (e,))
        return "exc", e


def pow2(n):
    """2**n for a possibly symbolic n >= 0 (no fork)."""
    return 1 << n


def mask(n):
    return (1 << n) - 1


def mkbytes(items):
    """bytes in concrete mode, SymBytes when anything symbolic is inside."""
    from symx import shims
    items = list(items)
    if shims.any_sym(items):
        return shims.SymBytes(items)
    return bytes(items)


def newdict(ctx):
    """An empty mapping that tolerates symbolic keys in symbolic mode and is a
    plain dict in concrete mode."""
    if ctx.symbolic:
        from symx import shims
        return shims.SymKeyDict()
    return {}


def registry_digest():
    """Structural digest of every piece of class-level state decode could
    touch: registries and the __dict__ of every Command/Address class."""
    import dali.command as C
    import dali.address as A
    import dali.gear.general as gg
    import dali.device.general as dg
    import dali.device.pushbutton as pb

    def dval(v):
        if isinstance(v, dict):
            return ("dict", tuple(sorted((repr(k), dval(x)) for k, x in dict.items(v))))
        if isinstance(v, (list, tuple, set, frozenset)):
            items = [dval(x) for x in v]
            if isinstance(v, (set, frozenset)):
                items = sorted(map(repr, items))
            return (type(v).__name__, tuple(items))
        if isinstance(v, type):
            return ("cls", v.__module__, v.__qualname__, id(v))
        if isinstance(v, (int, str, bool, type(None), bytes, float)):
            return v
        return ("obj", type(v).__name__, id(v))

    seen, out = set(), []

    def walk(cls):
        if cls in seen:
            return
        seen.add(cls)
        out.append((cls.__module__, cls.__qualname__,
                    tuple(sorted((k, dval(v)) for k, v in vars(cls).items()
                                 if not k.startswith("__") or k in ("__dict__",)))))
        for s in cls.__subclasses__():
            walk(s)
    walk(C.Command)
    walk(C.Response)
    walk(A.Address)
    walk(A.Instance)
    return hash(tuple(out))


def all_subclasses(root):
    out, stack = [], list(root.__subclasses__())
    while stack:
        c = stack.pop(0)
        if c not in out:
            out.append(c)
            stack.extend(c.__subclasses__())
    return out


def command_classes():
    """Every public command / event class of the library (found through the class hierarchy, not through a
    private registry): subclasses of Command defined in a dali module whose name does not start with '_'."""
    import dali.command as C
    return [c for c in all_subclasses(C.Command)
            if (c.__module__ or "").startswith("dali.") and not c.__name__.startswith("_")]


def address_classes():
    """Every concrete address kind: subclasses of Address that define their own from_frame."""
    import dali.address as A
    return [c for c in all_subclasses(A.Address) if "from_frame" in vars(c) and not c.__name__.startswith("_")]


class SpecMap:
    """Instance-type map of the harness (duck type of DeviceInstanceTypeMapper.get_type): entries are
    compared with solver-decided equalities, the last matching entry wins."""

    def __init__(self):
        self.entries = []

    def add_type(self, short_address, instance_number, instance_type):
        sa = getattr(short_address, "address", short_address)
        n = getattr(instance_number, "value", instance_number)
        self.entries.append((sa, n, instance_type))

    def get_type(self, short_address, instance_number):
        short_address = getattr(short_address, "address", short_address)
        instance_number = getattr(instance_number, "value", instance_number)
        for sa, n, t in reversed(self.entries):
            if bool(E.and_(E.eq(sa, short_address), E.eq(n, instance_number))):
                return t
        return None


def event_map(ctx):
    """A map for decodes where the map is not the subject (C01/C02/C03): the library's own
    DeviceInstanceTypeMapper with its private dict replaced by one that understands symbolic keys; if the
    mapper no longer keeps a plain dict in `_mapping` (internals restructured), the harness' own SpecMap -
    the decoder only needs get_type()."""
    import dali.device.helpers as helpers
    m = helpers.DeviceInstanceTypeMapper()
    if type(getattr(m, "_mapping", None)) is dict:
        m._mapping = newdict(ctx)
        return m
    ctx.note("mapper-internals-changed:SpecMap-used")
    return SpecMap()
