"""Helpers shared by the harnesses (mode-agnostic: work on SymInt and int)."""
from symx import E
from symx.core import SymInt, EngineUnsupported, PathEnd, ShardSkip, Budget

ENGINE_EXC = (EngineUnsupported, PathEnd, ShardSkip, Budget)


def exc_name(e):
    return type(e).__name__


def call(fn, *a, **k):
    """Run fn; return ('ok', result) or ('exc', exception).  Engine control
    exceptions are BaseException and pass through."""
    try:
        return "ok", fn(*a, **k)
    except Exception as e:  # noqa
        return "exc", e


def pow2(n):
    """2**n for a possibly symbolic n >= 0 (no fork)."""
    return 1 << n


def mask(n):
    return (1 << n) - 1


def mkbytes(items):
    """bytes in concrete mode, SymBytes when anything symbolic is inside."""
    from symx import shims
    items = list(items)
    if shims.any_sym(items):
        return shims.SymBytes(items)
    return bytes(items)
