"""C06 - responses interpret every backward-frame outcome faithfully and totally."""
from enum import Enum

from symx import E, Case
from harness.common import call, command_classes

import dali.frame as F
import dali.command as C
import dali.gear, dali.device  # noqa
import dali.gear.general, dali.gear.colour, dali.gear.converter, dali.gear.emergency  # noqa
import dali.gear.incandescent, dali.gear.led  # noqa
import dali.device.general, dali.device.pushbutton, dali.device.occupancy, dali.device.light  # noqa
from dali.exceptions import MissingResponse, ResponseError

META = {
    "level_text": "Bounded symbolic verification of every response class attached to any command (discovered "
                  "at run time) on the three bus outcomes: no answer, a clean backward frame with a symbolic "
                  "byte (all 256 values), a framing-error frame with a symbolic byte; per path z3 shows "
                  "raw_value/value/status/named bits agree with a reference written per base class, and that "
                  "str() never raises MissingResponse/ResponseError.",
    "level_note": "Trusted: z3/cvc5, symx semantics (each path re-run concretely). Reference semantics per "
                  "base class are written in the harness from the property statement; derived convenience "
                  "properties (fade_time, primary_n, ...) are only required not to raise on clean frames.",
    "explanation": "symbolic execution of Response.__init__/value/status/__getattr__/__str__ of every "
                   "reachable response class with a symbolic answer byte; bitmap loops fork per bit",
    "bounds_note": "constructor arguments: 19 non-frame objects incl. every falsy one (0, False, '', b'', [], {}, (), 0.0)",
    "bounds": ["the frame passed in is compared after all reads; bitmap re-read after the convenience properties",
               "all response classes reachable from the library's command classes plus the base classes",
               "answer byte 0..255 symbolic", "outcomes: none / clean / framing error",
               "non-frame constructor arguments: a concrete list of 9 objects",
               "bitmap histories: another bitmap class decodes the same byte and this class the complemented "
               "byte before the decode under test (quick: the next class in the list; thorough: every ordered "
               "pair of bitmap classes)"],
    "stubs": ["isinstance/int shims", "EnumProxy around the enumerator of EnumResponse subclasses",
              "SymScaled text tokens for value * float in __str__"],
    "outside": ["derived convenience properties beyond 'does not raise on a clean frame'",
                "BackwardFrame subclasses defined outside the library"],
    "assumptions": [],
}


def response_classes():
    seen, out = set(), []

    def add(c):
        if c is not None and c not in seen:
            seen.add(c)
            out.append(c)
    for c in (C.Response, C.NumericResponse, C.NumericResponseMask, C.YesNoResponse):
        add(c)
    for cmd in command_classes():
        add(getattr(cmd, "response", None))
    out.sort(key=lambda c: (c.__module__, c.__qualname__))
    return out


def _base(cls):
    for b in (C.YesNoResponse, C.NumericResponseMask, C.NumericResponse, C.BitmapResponse,
              C.EnumResponse):
        if issubclass(cls, b):
            return b
    return C.Response


def _mangle(b):
    return b.replace(" ", "_").replace("-", "")


def _install_enums(inst):
    """EnumResponse.value calls self.enumerator(int): proxy it for symbolic ints."""
    from symx import shims
    for cls in response_classes():
        if issubclass(cls, C.EnumResponse) and cls.enumerator is not None:
            inst.set(cls, "enumerator", shims.EnumProxy(cls.enumerator))


def h_response(ctx, idx, outcome):
    cls = response_classes()[idx]
    base = _base(cls)
    name = cls.__name__
    tag = "%s/%s" % (name, outcome)
    if outcome == "none":
        raw, v = None, None
    else:
        v = ctx.fresh("v", 0, 255)
        raw = (F.BackwardFrameError if outcome == "error" else F.BackwardFrame)(v)
    st, r = call(cls, raw)
    if st == "exc":
        ctx.fail("constructor raised %r" % (r,), key=tag + "/ctor")
        return "ctor-exc"
    ctx.prove(r.raw_value is raw, "raw_value is not the object passed in", key=tag + "/raw")
    expected = getattr(cls, "_expected", False)
    tolerant = getattr(cls, "_error_acceptable", False)
    label = ""

    # ---- value
    st, val = call(lambda: r.value)
    if base is C.YesNoResponse:
        ctx.prove(st == "ok" and val is (raw is not None),
                  "yes/no value %r for outcome %s" % (val, outcome), key=tag + "/yesno")
        label = "yesno=%s" % (val,)
    elif base in (C.NumericResponse, C.NumericResponseMask):
        if st == "exc":
            ctx.fail("numeric value raised %r" % (val,), key=tag + "/numeric-raised")
            label = "raised"
        elif outcome == "clean":
            if base is C.NumericResponseMask and val == "MASK":
                ctx.prove(E.eq(v, 255), "MASK reported for a byte other than 255", key=tag + "/mask")
                label = "MASK"
            else:
                ok = isinstance(val, int) or (ctx.symbolic and type(val).__name__ == "SymInt")
                ctx.prove(ok and not isinstance(val, bool), "numeric value is not an integer: %r" % (val,),
                          key=tag + "/numeric-type")
                if ok:
                    ctx.prove(E.eq(val, v), "numeric value differs from the answer byte",
                              key=tag + "/numeric-value")
                    if base is C.NumericResponseMask:
                        ctx.prove(E.ne(v, 255), "255 not reported as MASK", key=tag + "/mask-missed")
                label = "int"
        else:
            isint = isinstance(val, int) or type(val).__name__ == "SymInt"
            ctx.prove(not isint, "integer %r reported without a clean answer" % (val,),
                      key=tag + "/numeric-marker")
            label = "marker"
    elif base is C.BitmapResponse:
        # a bitmap response is a generic response as far as .value goes: the frame itself on a clean answer
        # (whatever bits are set - also the ones a subclass calls "error"), MissingResponse / ResponseError
        # where the class cannot tolerate a missing / garbled answer
        _generic_value(ctx, st, val, raw, outcome, expected, tolerant, tag)
        label = _bitmap(ctx, cls, r, raw, v, outcome, tag)
    elif base is C.EnumResponse:
        enum = cls.enumerator._real if hasattr(cls.enumerator, "_real") else cls.enumerator
        if outcome == "none":
            if expected:
                ctx.prove(st == "exc" and isinstance(val, MissingResponse),
                          "missing answer not reported with MissingResponse", key=tag + "/enum-missing")
            else:
                ctx.prove(st == "ok" and val is None, "missing answer gave %r" % (val,),
                          key=tag + "/enum-none")
            label = "none"
        elif outcome == "error":
            if tolerant:
                ctx.prove(st == "ok" or isinstance(val, ValueError), "garbled answer gave %r" % (val,),
                          key=tag + "/enum-error-tolerant")
            else:
                ctx.prove(st == "exc" and isinstance(val, ResponseError),
                          "garbled answer not reported with ResponseError: %r" % (val,),
                          key=tag + "/enum-error")
            label = "error"
        else:
            defined = E.or_(*[E.eq(v, int(m.value)) for m in enum])
            if st == "exc":
                ctx.prove(isinstance(val, ValueError), "enum value raised %r" % (val,),
                          key=tag + "/enum-exc-type")
                ctx.prove(E.not_(defined), "defined code rejected", key=tag + "/enum-rejected")
                label = "ValueError"
            elif isinstance(val, enum):
                ctx.prove(E.eq(v, int(val.value)), "enum member differs from the code",
                          key=tag + "/enum-value")
                label = "member"
            elif val == "MASK":
                # "255 reads as MASK where the standard says so": of the enumerated answers only QUERY ASSIGNED
                # COLOUR (209: 255 = MASK, channel not assigned); for QUERY EVENT SCHEME (103) codes 5..255
                # are reserved and must be rejected
                ctx.prove(cls.__name__ in MASK_ENUMS, "%s reads 255 as MASK; the standard defines no MASK for it"
                          % cls.__name__, key=tag + "/enum-mask-undefined")
                ctx.prove(E.eq(v, 255), "MASK reported for a code other than 255", key=tag + "/enum-mask")
                label = "MASK"
            else:
                ctx.prove(E.not_(defined), "defined code decoded to the non-member %r" % (val,),
                          key=tag + "/enum-defined-nonmember")
                ctx.fail("undefined code not rejected with ValueError: value is %r" % (val,),
                         key=tag + "/enum-undefined-marker:%s" % (val,))
                label = "marker"
    else:
        _generic_value(ctx, st, val, raw, outcome, expected, tolerant, tag)
        label = "generic"

    # ---- text
    st, s = call(str, r)
    if st == "exc":
        if isinstance(s, (MissingResponse, ResponseError)):
            ctx.fail("str() raised %s" % type(s).__name__, key=tag + "/str-raised:" + type(s).__name__)
        else:
            ctx.note("str-raised-other:%s:%s" % (name, type(s).__name__))
        label += " str!" + type(s).__name__
    else:
        ctx.observe("text", s)
    # ---- derived convenience properties must not raise on clean frames
    derived = False
    if outcome == "clean":
        for attr in ("fade_time", "fade_rate", "mode", "control_type", "primary_n", "error"):
            if isinstance(getattr(cls, attr, None), property):
                st, x = call(getattr, r, attr)
                ctx.prove(st == "ok", "%s raised %r on a clean frame" % (attr, x),
                          key=tag + "/derived:" + attr)
                derived = True
        if derived and base is C.BitmapResponse:
            # reading a convenience property is a read: the bits are still all there afterwards
            _bitmap(ctx, cls, r, raw, v, outcome, tag + "/after-derived")
    if raw is not None:
        ctx.prove(r.raw_value is raw and E.eq(raw.as_integer, v) and bool(raw.error) == (outcome == "error"),
                  "the frame passed in was modified by reading the response", key=tag + "/raw-modified")
    return "%s %s" % (outcome, label)


def _generic_value(ctx, st, val, raw, outcome, expected, tolerant, tag):
    """generic response: hands back the frame itself"""
    if outcome == "none":
        if expected:
            ctx.prove(st == "exc" and isinstance(val, MissingResponse),
                      "missing answer not reported with MissingResponse", key=tag + "/generic-missing")
        else:
            ctx.prove(st == "ok" and val is None, "missing answer gave %r" % (val,),
                      key=tag + "/generic-none")
    elif outcome == "error" and not tolerant:
        ctx.prove(st == "exc" and isinstance(val, ResponseError),
                  "garbled answer not reported with ResponseError: %r" % (val,),
                  key=tag + "/generic-error")
    else:
        ctx.prove(st == "ok" and val is raw, "generic value is not the frame itself: %r" % (val,),
                  key=tag + "/generic-frame")


def _bitmap(ctx, cls, r, raw, v, outcome, tag):
    names = list(cls.bits)
    st, status = call(lambda: r.status)
    if outcome == "none":
        ctx.prove(st == "exc" and isinstance(status, MissingResponse),
                  "bitmap status on a missing answer: %r" % (status,), key=tag + "/bitmap-missing")
    elif outcome == "error":
        if st == "exc":
            ctx.prove(isinstance(status, (MissingResponse, ResponseError)),
                      "bitmap status on a garbled answer raised %r" % (status,), key=tag + "/bitmap-error-exc")
        else:
            ctx.prove(not any(b and b in status for b in names),
                      "bit names reported from a garbled answer: %r" % (status,), key=tag + "/bitmap-error")
    else:
        if st == "exc":
            ctx.fail("bitmap status raised %r" % (status,), key=tag + "/bitmap-raised")
            return "raised"
        exp_order = [b for b in names if b and b in status]
        ctx.prove(list(status) == exp_order, "status not LSB-first / has foreign entries: %r" % (status,),
                  key=tag + "/bitmap-order")
        for i, b in enumerate(names[:8]):
            if b:
                ctx.prove(E.iff(b in status, E.bit(v, i)), "status lists %r wrongly" % b,
                          key=tag + "/bitmap-bit%d" % i)
    # named attributes
    for i, b in enumerate(names[:8]):
        if not b:
            continue
        attr = _mangle(b)
        if isinstance(getattr(cls, attr, None), property):
            continue
        st, x = call(getattr, r, attr)
        if st == "exc":
            ctx.fail("named bit %s raised %r" % (attr, x), key=tag + "/named-raised:" + attr)
            continue
        if outcome == "clean":
            ctx.prove(x is True or x is False, "named bit %s is %r" % (attr, x), key=tag + "/named-type:" + attr)
            ctx.prove(E.iff(x, E.bit(v, i)), "named bit %s differs from bit %d" % (attr, i),
                      key=tag + "/named:" + attr)
        else:
            ctx.prove(x is None, "named bit %s is %r without a clean answer" % (attr, x),
                      key=tag + "/named-none:" + attr)
    st, x = call(getattr, r, "no_such_bit_name")
    ctx.prove(st == "exc" and isinstance(x, AttributeError), "unknown attribute gave %r" % (x,),
              key=tag + "/named-unknown")
    return "bitmap"


def bitmap_classes():
    return [c for c in response_classes() if _base(c) is C.BitmapResponse]


def h_bitmap_history(ctx, idx, prev):
    """The decoding of one answer must not depend on what was decoded before: another bitmap class
    decodes the same byte, then this class decodes the complemented byte, then the byte itself
    (catches state shared between classes or between instances, e.g. memoised decodings)."""
    bm = bitmap_classes()
    cls, other = bm[idx], bm[prev]
    tag = "%s/after-%s" % (cls.__name__, other.__name__)
    v = ctx.fresh("v", 0, 255)
    for c, x in ((other, v), (cls, v ^ 0xFF)):
        r0 = c(F.BackwardFrame(x))
        st, s0 = call(lambda: r0.status)
        if st == "exc":
            ctx.fail("bitmap status raised %r" % (s0,), key=tag + "/earlier-raised")
            return "raised"
        call(str, r0)
    raw = F.BackwardFrame(v)
    r = cls(raw)
    return _bitmap(ctx, cls, r, raw, v, "clean", tag)


MASK_ENUMS = ("QueryAssignedColourResponse",)


def h_ctor_types(ctx):
    bad = [F.Frame(8, 1), F.ForwardFrame(8, 1), F.ForwardFrame(16, 1), 5, "x", b"\x01", 1.0, [1], True,
           # falsy things that are neither a backward frame nor None
           0, False, "", b"", [], {}, (), 0.0, F.Frame(8, 0), F.ForwardFrame(8, 0)]
    n = 0
    for cls in response_classes():
        for obj in bad:
            st, r = call(cls, obj)
            ctx.prove(st == "exc" and isinstance(r, TypeError),
                      "%s(%r) gave %r" % (cls.__name__, obj, r),
                      key="%s/ctor-type:%s%s" % (cls.__name__, type(obj).__name__, "" if obj else "-falsy"))
            n += 1
        st, r = call(cls, None)
        ctx.prove(st == "ok", "%s(None) raised" % cls.__name__, key="%s/ctor-none" % cls.__name__)
    return "n=%d" % n


def cases(tier):
    cs = [Case("ctor-types", h_ctor_types, {})]
    for i, cls in enumerate(response_classes()):
        for outcome in ("none", "clean", "error"):
            cs.append(Case("%s-%s" % (cls.__name__, outcome), h_response,
                           {"idx": i, "outcome": outcome}, install=_install_enums))
    # two responses of the same class in one process with independent bytes (memoised decoding)
    cheap = ("Response", "NumericResponse", "YesNoResponse", "VoltageResponse", "QueryFadeTimeAndRateResponse",
             "QueryFailureStatusResponse", "NumericResponseMask", "FastFadeTimeResponse", "OutputLevelResponse",
             "QueryInstanceStatusResponse", "QueryEventSchemeResponse", "QueryAssignedColourResponse")
    for i, cls in enumerate(response_classes()):
        if cls.__name__ in cheap:       # classes with < 10 paths per decode: the square stays small
            cs.append(Case("%s-clean-twice" % cls.__name__, h_response, {"idx": i, "outcome": "clean"},
                           install=_install_enums, repeat=2))
    bm = bitmap_classes()
    for i, cls in enumerate(bm):
        prevs = [(i + 1) % len(bm)] if tier == "quick" else [j for j in range(len(bm)) if j != i]
        for j in prevs:
            cs.append(Case("%s-after-%s" % (cls.__name__, bm[j].__name__), h_bitmap_history,
                           {"idx": i, "prev": j}, install=_install_enums))
    return cs
