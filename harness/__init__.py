"""One module per property; each exposes META (dict) and cases(tier) -> [Case]."""
MODULES = {
    "C01": "harness.c01_decode",
    "C05": "harness.c05_frame",
}
