"""One module per property; each exposes META (dict) and cases(tier) -> [Case]."""
MODULES = {
    "C01": "harness.c01_decode",
    "C06": "harness.c06_response",
    "C02": "harness.c02_construct",
    "C03": "harness.c03_tables",
    "C04": "harness.c04_address",
    "C05": "harness.c05_frame",
    "C07": "harness.c07_commissioning",
    "C08": "harness.c08_gearseq",
    "C09": "harness.c09_memread",
    "C10": "harness.c10_memwrite",
    "C11": "harness.c11_memvalues",
    "C12": "harness.c12_events",
    "C13": "harness.c13_deviceseq",
    "C14": "harness.c14_colour",
    "C18": "harness.c18_wire",
    "C19": "harness.c19_deframe",
}
