"""One module per property; each exposes META (dict) and cases(tier) -> [Case]."""
MODULES = {
    "C05": "harness.c05_frame",
}
