"""Test rigs for the asyncio drivers: fake `os` / transport, gateway models that
answer what the driver writes, virtual-time event loop.  All of this is
harness environment (used identically in symbolic and concrete mode)."""
import asyncio
import logging
import sys
import types

# third-party packages that are not installed are needed only for import
for _name in ("usb", "usb.core", "usb.util", "hid", "pymodbus.client.sync"):
    if _name not in sys.modules:
        try:
            __import__(_name)
        except Exception:
            _m = types.ModuleType(_name)
            _m.ModbusSerialClient = _m.ModbusTcpClient = object
            sys.modules[_name] = _m


from symx import vloop
from symx.core import SymInt

import dali.frame as F
import dali.command as C
import dali.driver.hid as H
import dali.driver.serial as S

logging.disable(logging.CRITICAL)


def mkbytes(items):
    from symx import shims
    items = list(items)
    if shims.any_sym(items):
        return shims.SymBytes._wrap(items)
    return bytes(items)


# ---------------------------------------------------------------------------------------------
# generic symbolic-frame commands (flags enumerated by the harness, frame bits symbolic)

def make_command(frame, sendtwice=False, response=None, devicetype=0):
    cls = type("RigCommand", (C.Command,), {"sendtwice": sendtwice, "response": response,
                                            "devicetype": devicetype,
                                            "from_frame": classmethod(lambda c, f, **k: None)})
    # the metaclass registered the class: take it out again so that decoding is not affected
    _unregister(cls)
    return cls(frame)


def _unregister(cls):
    """Take a harness-defined command class out of whatever class-level lists / tables of Command (and its
    bases' metaclass bookkeeping) it was entered in - by content, not by attribute name."""
    def scrub(v):
        if isinstance(v, list):
            while cls in v:
                v.remove(cls)
        elif isinstance(v, dict):
            for k in [k for k, x in dict.items(v) if x is cls]:
                dict.pop(v, k)
            for x in dict.values(v):
                scrub(x)
    for owner in C.Command.__mro__:
        for v in list(vars(owner).values()):
            scrub(v)


# ---------------------------------------------------------------------------------------------
# fake os for dali.driver.hid

def _env(e):
    """An exception the modelled environment raises on purpose (a failing write, a vanished device): if the
    library lets it escape that is the library's doing, not a harness error."""
    e._from_library = True
    return e


class FakeOS:
    O_RDWR = 2
    O_NONBLOCK = 2048

    def __init__(self):
        self.writes = []            # every successful write (bytes-like of 64 / 2 bytes)
        self.reads = []             # queue of data for os.read; b'' = EOF; OSError instance = raise
        self.on_write = None        # callable(data) -> None, the gateway model
        self.fail_writes = set()    # indices (count of all write calls) that raise OSError
        self.fail_opens = 0         # number of following open() calls that fail
        self.nwrites = 0
        self.opens = 0
        self.closed = []
        self.next_fd = 50

    def open(self, path, flags):
        self.opens += 1
        if self.fail_opens > 0:
            self.fail_opens -= 1
            raise _env(OSError("no such device"))
        self.next_fd += 1
        return self.next_fd

    def close(self, fd):
        self.closed.append(fd)

    def write(self, fd, data):
        if not isinstance(fd, int):
            raise _env(TypeError("an integer is required (got type %s)" % type(fd).__name__))
        if fd in self.closed:
            raise _env(OSError(9, "Bad file descriptor"))
        i = self.nwrites
        self.nwrites += 1
        if i in self.fail_writes:
            raise _env(OSError("write failed"))
        if not isinstance(data, bytes):
            data = mkbytes(list(data))      # the device has the bytes now: later changes to a buffer are not seen
        self.writes.append(data)
        if self.on_write is not None:
            self.on_write(data)
        return len(data)

    def read(self, fd, n):
        if not self.reads:
            raise _env(BlockingIOError())
        d = self.reads.pop(0)
        if isinstance(d, Exception):
            raise _env(d)
        return d


class FakeRandom:
    def __init__(self, value):
        self.value = value

    def randint(self, a, b):
        return self.value


class HidRig:
    """Patches dali.driver.hid's os/random/_hex for one harness run."""

    def __init__(self, ctx, seq0=7):
        self.ctx = ctx
        self.os = FakeOS()
        self.seq0 = seq0

    def __enter__(self):
        # (random and _hex are patched only where the module has them: where the first sequence number
        # comes from and how reports are logged are not part of any property)
        self.saved = {k: getattr(H, k) for k in ("os", "random", "_hex") if hasattr(H, k)}
        H.os = self.os
        if "random" in self.saved:
            H.random = FakeRandom(self.seq0)
        if "_hex" in self.saved:
            H._hex = lambda b: "".join("%02X" % (x if isinstance(x, int) else 0) for x in b) \
                if not any(type(x) is SymInt for x in b) else "<sym>"
        return self

    def __exit__(self, *a):
        for k, v in self.saved.items():
            setattr(H, k, v)
        return False

    # ---- deliver a report from the gateway to the driver through its reader callback
    def deliver(self, loop, drv, data):
        self.os.reads.append(data)
        if not loop.fire_reader(drv._f):
            self.os.reads.pop()
            return False
        return True


def tridonic_report(mode, rtype, frame4, seq, interval=0):
    """64-byte report: mode, type, 4 frame bytes, 2 interval bytes, seq, padding."""
    body = [mode, rtype] + list(frame4) + [(interval >> 8) & 0xFF, interval & 0xFF, seq]
    return mkbytes(body + [0] * (64 - len(body)))


def install_tridonic_structs(inst):
    """Symbolic mode: let the driver's own struct templates handle symbolic bytes."""
    from symx import shims
    inst.set(H.tridonic, "_cmdtmpl", shims.StructShim(H.tridonic._cmdtmpl.format))
    inst.set(H.tridonic, "_resptmpl", shims.StructShim(H.tridonic._resptmpl.format))
    inst.set(H.hasseb, "_cmdtmpl", shims.StructShim(H.hasseb._cmdtmpl.format))


async def tridonic_connect(loop, rig, **kw):
    """Create a tridonic driver, connect and run the version/serial handshake."""
    d = H.tridonic("/dev/dali", **kw)
    if rig.ctx.symbolic:
        # sequence numbers may be symbolic: dicts that do not hash their keys
        symbolic_registries(d)
    note_idle(d)
    d.connect()
    await vloop.settle(2)
    rig.deliver(loop, d, bytes([1, 0, 0, 1, 2] + [0] * 59))      # firmware version
    await vloop.settle(2)
    rig.deliver(loop, d, bytes([1, 1, 2, 3, 4] + [0] * 59))      # serial number
    await vloop.settle(2)
    return d


# ---------------------------------------------------------------------------------------------
# serial drivers: fake transport

class FakeTransport:
    def __init__(self, loop):
        self.loop = loop
        self.writes = []
        self.on_write = None

    def write(self, data):
        self.writes.append(list(data))
        if self.on_write is not None:
            self.on_write(list(data))

    def close(self):
        pass


def luba_driver(loop):
    d = S.DriverLubaRs232("luba232:/dev/ttyFAKE")
    p = S.DriverLubaRs232.LubaProtocol()
    t = FakeTransport(loop)
    p.transport = t
    p._connected.set()
    p.dev_inst_map = d.dev_inst_map
    d._protocol, d._transport = p, t
    d._connected.set()
    return d, p, t


def sci_driver(loop):
    d = S.DriverSCIRS232("scirs232:/dev/ttyFAKE")
    p = S.DriverSCIRS232.SCIRS232Protocol()
    t = FakeTransport(loop)
    p.transport = t
    p._connected.set()
    p.dev_inst_map = d.dev_inst_map
    d._protocol, d._transport = p, t
    d._connected.set()
    return d, p, t


def luba_frame(cmd, payload):
    body = [cmd, len(payload)] + list(payload)
    chk = 0
    for b in body:
        chk = chk ^ b
    return [0x59] + body + [chk]


def luba_event_tx(tx_id, frame_bytes):
    return luba_frame(0x31, [0, 0, 0, 0x00, tx_id] + list(frame_bytes))


def luba_event_rx(frame_bytes, info=None):
    nbits = 8 * len(frame_bytes)
    return luba_frame(0x31, [0, 0, 0, 0x80 | (nbits if info is None else info)] + list(frame_bytes))


def sci_frame(status, hi, mi, lo):
    return [status, hi, mi, lo, status ^ hi ^ mi ^ lo]


# ---------------------------------------------------------------------------------------------
# probes of a driver's private state that do not depend on attribute names

def symbolic_registries(d):
    """Symbolic mode: every (still empty) plain dict the driver object owns becomes a dict that can be
    keyed by symbolic values (sequence numbers are symbolic in some cases) - whatever the attribute is
    called."""
    from symx import shims
    for k, v in list(vars(d).items()):
        if type(v) is dict and not v:
            setattr(d, k, shims.SymKeyDict())


def held(d, *more):
    """What a driver (and the protocol objects passed along) is still holding: number of entries in its
    private dicts, semaphores below their initial value, locks that are locked.  Names are not used: any dict /
    asyncio.Semaphore / asyncio.Lock the object owns counts.  `transaction_lock` is reported separately by
    the harnesses."""
    out = {"entries": 0, "semaphores": 0, "locks": 0}
    for obj in (d,) + more:
        for k, v in list(vars(obj).items()):
            if isinstance(v, dict):
                out["entries"] += len(v)
            elif isinstance(v, asyncio.Semaphore):
                init = _SEM_INIT.get(id(v))
                if init is not None and v._value < init:
                    out["semaphores"] += init - v._value
            elif isinstance(v, asyncio.Lock) and k != "transaction_lock":
                out["locks"] += 1 if v.locked() else 0
    return out


_SEM_INIT = {}


def note_idle(d, *more):
    """Remember the idle value of every semaphore the objects own (call once, right after construction)."""
    for obj in (d,) + more:
        for v in vars(obj).values():
            if isinstance(v, asyncio.Semaphore):
                _SEM_INIT[id(v)] = v._value


def background_tasks_alive(d):
    """All asyncio tasks the driver object keeps in attributes are still running (none died)."""
    ts = [v for v in vars(d).values() if isinstance(v, asyncio.Task)]
    return bool(ts) and all(not t.done() for t in ts), [t.exception() for t in ts if t.done() and not t.cancelled()]
