"""C10 - memory writes store exactly the data or fail loudly; never silently."""
import importlib

from symx import E, Case
from harness.common import call, mkbytes
from spec import memory_map as MM
from spec import models as M

import dali.frame as F
import dali.address as A
import dali.memory.location as L
import dali.memory.info, dali.memory.oem, dali.memory.energy  # noqa
import dali.memory.diagnostics, dali.memory.maintenance  # noqa
from dali.exceptions import (MemoryValueNotWriteable, MemoryLocationNotWriteable, MemoryWriteFailure,
                             MemoryWriteError, ResponseError)

# the deeper thorough case list (kept in cases()) exceeded a 13-minute cap on the loaded machine in the last
# session and could not be re-validated end to end after the final harness changes: see symx/runner.py
THOROUGH_CASES = "quick"

META = {
    "level_text": "Bounded symbolic verification of MemoryValue.write_raw/write against the 9.10 memory model: "
                  "for every declared value, symbolic bytes to write, symbolic previous contents, lock byte "
                  "(locked / unlocked / arbitrary), stale DTRs, gear and device addressing, z3 shows that a "
                  "normal return stored exactly those bytes at exactly the value's locations, changed nothing "
                  "else and left a lockable bank locked; values with a read-only location are refused before "
                  "anything is sent; under each injected fault (NO, wrong echo, framing error, DTR0 not "
                  "advancing, lock byte stuck, non-standard unlock value, shorter bank - at a symbolic step) a "
                  "write with feedback raises a documented memory/response exception.",
    "level_note": "Trusted: the unit/memory model in /verif/spec/models.py and the memory types of "
                  "/verif/spec/memory_map.py (which locations a conforming unit accepts writes to), z3/cvc5, "
                  "symx semantics (each path re-run concretely). One fault per path.",
    "explanation": "symbolic execution of write_raw / write driven against the memory model",
    "bounds": ["every optional boolean parameter of write_raw beyond the known three is a symbolic input (none at the pinned commit)",
               "every declared value; writable ones with all bytes symbolic; strings also as short writes of "
               "every length (quick: a few lengths)", "one fault of each kind at a symbolic write step",
               "lock byte initially 0x55 / 0xFF / symbolic", "force_unlock and ignore_feedback both ways",
               "six synthetic values (declared by the harness through the library's metaclass in a lockable "
               "bank) whose locations mix writable, read-only, untyped and lockable memory types, and two whose "
               "locations are declared in another order than ascending address",
               "write(value, force_unlock / ignore_feedback) for strings and numbers against a unit that stays locked",
               "the lock / latch byte of every bank written on its own: stored exactly, failures reported"],
    "stubs": ["isinstance/int/bytes shims"],
    "outside": ["several faults in one write", "units violating 9.10 in other ways",
                "NVM_RW_P (vendor-protected) locations - none declared"],
    "assumptions": [],
}


# ---- synthetic values: memory types mixed inside one value (no shipped value is like that), declared
# through the library's own metaclass in a lockable bank of the harness

SYN_BANK = L.MemoryBank(address=0xBD, last_address=0x40, has_lock=True)
BANKS = dict(MM.BANK_HEADERS, SYN_BANK=("harness", 0xBD, 0x40, True, False))
SYN = []


def _declare_synthetic():
    first = 3
    for name, types in (("SynRwRoRw", ["NVM_RW", "NVM_RO", "NVM_RW"]), ("SynRwRwRom", ["NVM_RW", "RAM_RW", "ROM"]),
                        ("SynRwNone", ["RAM_RW", None]), ("SynRoRw", ["RAM_RO", "NVM_RW"]),
                        ("SynLockRw", ["NVM_RW_L", "NVM_RW"]), ("SynRwLock", ["RAM_RW", "NVM_RW", "NVM_RW_L"])):
        attrs = {"bank": SYN_BANK,
                 "locations": tuple(L.MemoryLocation(first + i, type_=(L.MemoryType[t] if t else None))
                                    for i, t in enumerate(types))}
        cls = type(L.NumericValue)(name, (L.NumericValue,), attrs)
        SYN.append((("harness", "SYN_BANK", name, 0xBD, first, len(types), list(types), "num", None), cls))
        first += len(types)
    # locations declared in another order than ascending address (the class documentation allows it: the
    # order is the order of the value's bytes): byte i of the data belongs to locations[i]
    for name, offs in (("SynDescending", [1, 0]), ("SynShuffled", [2, 0, 1])):
        locs = [first + o for o in offs]
        attrs = {"bank": SYN_BANK, "locations": tuple(L.MemoryLocation(a, type_=L.MemoryType.NVM_RW) for a in locs)}
        cls = type(L.NumericValue)(name, (L.NumericValue,), attrs)
        SYN.append((("harness", "SYN_BANK", name, 0xBD, first, len(offs), ["NVM_RW"] * len(offs), "num",
                     {"locs": locs}), cls))
        first += len(offs)


_declare_synthetic()


def _values():
    out = []
    for row in MM.ROWS:
        cls = getattr(importlib.import_module(row[0]), row[2], None)
        if cls is not None:
            out.append((row, cls))
    return out + SYN


def _writable(row):
    mt = row[6]
    if isinstance(mt, list):
        types = list(mt)
    else:
        types = [mt] * row[5] if isinstance(mt, str) else [mt[0]] + [mt[1]] * (row[5] - 1)
    return all(t in MM.WRITABLE_TYPES for t in types), types


FAULTS = ["none", "no", "echo", "framing", "dtr0-stuck", "dtr0-skip", "lock-stuck", "odd-unlock", "short-bank"]


def h_write(ctx, vi, kind, fault_name, nbytes, force_unlock, ignore_feedback):
    row, cls = _values()[vi]
    mod, bname, name, bankno, first, width, mtype, vkind, param = row
    tag = "%s/%s/%s" % (bname, name, kind)
    can, types = _writable(row)
    has_lock = BANKS[bname][3] or BANKS[bname][4]
    locs = list(param["locs"]) if isinstance(param, dict) and "locs" in param else list(range(first, first + width))
    n = width if nbytes is None else nbytes
    data = [ctx.fresh("w%d" % i, 0, 255) for i in range(n)]
    image = {}
    for l in range(0, 256):
        image[l] = (l * 29 + 7) & 0xFF
    for l in locs + [first - 1, first + width]:
        if 3 <= l <= 254:
            image[l] = ctx.fresh("m%d" % l, 0, 255)
    last = 254
    if fault_name == "short-bank":
        last = ctx.fresh("last", 2, max(2, first + n - 2))
    image[0] = last
    lockmode = ctx.fresh_choice("lockmode", 3) if has_lock else 0
    if has_lock:
        image[2] = [0xFF, 0x55, None][lockmode]
        if image[2] is None:
            image[2] = ctx.fresh("lockbyte", 0, 255)
        if fault_name == "lock-stuck":
            # the fault is "stays locked": a byte stuck at the unlock value is another story
            ctx.assume(E.ne(image[2], 0x55))
    tmap = dict(zip(locs, types))

    def writable(loc):
        t = tmap.get(loc)
        if t in ("RAM_RW", "NVM_RW"):
            return "rw"
        if t == "NVM_RW_L":
            return "lock"
        return None
    bank = M.MemoryBank(image, last, writable=writable, has_lock=has_lock,
                        unlock_value=0x5A if fault_name == "odd-unlock" else 0x55,
                        stuck_lock=fault_name == "lock-stuck")
    sa = 21
    u = M.Unit(kind, short=sa, dtr0=ctx.fresh("dtr0", 0, 255), dtr1=ctx.fresh("dtr1", 0, 255),
               dtr2=ctx.fresh("dtr2", 0, 255), banks={bankno: bank},
               dtr0_stuck=fault_name == "dtr0-stuck")
    fstep = ctx.fresh("fault_at", 0, max(0, n - 1)) if fault_name in ("no", "echo", "framing") else None
    if fault_name == "dtr0-skip":
        # the unit fails once to advance DTR0 after an accepted memory write (incl. the unlock write)
        nw = n + (1 if (any(t == "NVM_RW_L" for t in types) or force_unlock) and has_lock else 0)
        u.dtr0_skip = (ctx.fresh("skip_at", 0, max(0, nw - 1)),)
    wr = [0]
    hit = []

    def fault(k, cmd, raw):
        if cmd.response is None or fstep is None:
            return raw
        # only the answers to WRITE MEMORY LOCATION count as steps
        fv = cmd.frame.as_integer
        iswrite = bool(E.eq(fv >> 8, 0xC7)) if len(cmd.frame) == 16 else bool(E.eq(fv >> 8, 0xC120))
        if not iswrite:
            return raw
        i = wr[0]
        wr[0] += 1
        if bool(E.eq(i, fstep)):
            hit.append(i)
            if fault_name == "no":
                return None
            if fault_name == "framing":
                return F.BackwardFrameError(raw.as_integer if raw is not None else 0)
            return F.BackwardFrame((raw.as_integer ^ 0x10) if raw is not None else 0x10)
        return raw
    before = dict(bank.image)
    bus = M.Bus([u], fault=fault)
    addr = A.GearShort(sa) if kind == "gear" else A.DeviceShort(sa)
    if kind == "gear" and vi % 2:
        addr = sa
    # further on/off switches of the write (none at the pinned commit): whatever else they do, the guarantees
    # checked below hold with them on as well as off
    import inspect
    extra = {}
    for pname, prm in inspect.signature(cls.write_raw).parameters.items():
        if pname not in ("addr", "value", "allow_short_write", "force_unlock", "ignore_feedback") \
                and prm.default in (False, True) and prm.kind in (prm.KEYWORD_ONLY, prm.POSITIONAL_OR_KEYWORD):
            extra[pname] = ctx.fresh_bool("switch_" + pname)
    st, r = bus.run(cls.write_raw(addr, mkbytes(data), allow_short_write=nbytes is not None,
                                  force_unlock=force_unlock, ignore_feedback=ignore_feedback, **extra))
    if not can:
        ctx.prove(st == "exc" and isinstance(r, MemoryValueNotWriteable),
                  "value with a read-only location not refused: %s %r" % (st, r), key=tag + "/readonly-accepted")
        ctx.prove(len(bus.frames) == 0, "frames sent before the refusal", key=tag + "/readonly-sent")
        return "refused"
    lockable = any(t == "NVM_RW_L" for t in types)
    # the unit would accept the write only if unlocked by the sequence (or not lockable)
    faulty = fault_name != "none"
    if fault_name in ("lock-stuck", "odd-unlock") and not (lockable or force_unlock):
        faulty = False          # the lock byte is never touched: these faults cannot manifest
    if fault_name == "lock-stuck" and not lockable:
        faulty = False
    if fault_name == "odd-unlock" and not lockable:
        faulty = False
    if fault_name == "odd-unlock" and lockable and lockmode == 2:
        # an arbitrary initial lock byte may already be this unit's unlock value - but the
        # sequence overwrites it with 0x55 first, so the unit is locked when written
        pass
    if n == 0:
        faulty = False
    if fault_name == "dtr0-skip":
        # a skipped increment after the very last data write leaves the data intact, only DTR0 is short:
        # the write is not corrupted, so success and failure are both acceptable there
        last_index = u.nmemwrites
        pass
    if st == "exc":
        documented = isinstance(r, (MemoryWriteError, ResponseError))
        ctx.prove(documented, "write raised the undocumented %r" % (r,), key=tag + "/exc-type:" + type(r).__name__)
        ctx.prove(faulty and not ignore_feedback, "write to a healthy unit failed with %r" % (r,),
                  key=tag + "/spurious-failure:" + fault_name)
        return "raised:" + type(r).__name__
    if faulty and not ignore_feedback and fault_name == "dtr0-skip":
        intact = E.and_(*[E.eq(bank.image[l], data[i]) for i, l in enumerate(locs[:n])]) if n else True
        others = all(bank.image[l] is before[l] for l in before if l not in locs[:n] and l != 2)
        ctx.prove(E.and_(intact, others), "DTR0 failed to advance once, the data ended up corrupted, and the "
                  "write reported success", key=tag + "/silent-failure:dtr0-skip")
        return "skip-tolerated"
    if faulty and not ignore_feedback:
        ctx.fail("fault '%s' but the write reported success" % fault_name,
                 key=tag + "/silent-failure:" + fault_name)
        return "silent-failure"
    if faulty:
        return "ignored-feedback"
    # ---- success on a healthy unit: exactly the data, nothing else, locked again
    for i, l in enumerate(locs[:n]):
        ctx.prove(E.eq(bank.image[l], data[i]), "location %d does not hold the byte written" % l,
                  key=tag + "/stored")
    for l in before:
        if l in locs[:n] or (l == 2 and has_lock):
            continue
        if bank.image[l] is not before[l]:
            ctx.fail("location %d changed by the write" % l, key=tag + "/other-location")
    if has_lock:
        if lockable or force_unlock:
            ctx.prove(E.ne(bank.image[2], 0x55), "lockable bank left unlocked after the write",
                      key=tag + "/left-unlocked")
        else:
            ctx.prove(bank.image[2] is before[2], "lock byte touched by a write that needs no unlocking",
                      key=tag + "/lockbyte-touched")
    ctx.observe("written", [bank.image[l] for l in locs[:n]])
    return "stored"


def h_write_lockbyte(ctx, bname, fault_name):
    """The lock / latch byte is a declared, writable value of its bank too: written on its own (default
    flags) it is stored exactly, and a unit that answers NO, echoes another byte or garbles the answer makes
    the write fail loudly - no default may turn the feedback off."""
    mod, number, declared_last, has_lock, has_latch = MM.BANK_HEADERS[bname]
    bobj = getattr(importlib.import_module(mod), bname)
    cls = bobj.LockByte
    v = ctx.fresh("v", 0, 255)
    image = {l: (l * 13 + 5) & 0xFF for l in range(256)}
    image[0] = 254
    image[2] = ctx.fresh("lockbyte", 0, 255)
    bank = M.MemoryBank(image, 254, writable=lambda loc: "rw", has_lock=True)
    u = M.Unit("gear", short=7, banks={number: bank})
    hit = []

    def fault(k, cmd, raw):
        if cmd.response is None or fault_name == "none":
            return raw
        fv = cmd.frame.as_integer
        if not bool(E.eq(fv >> 8, 0xC7)):
            return raw
        hit.append(k)
        if fault_name == "no":
            return None
        if fault_name == "framing":
            return F.BackwardFrameError(raw.as_integer if raw is not None else 0)
        return F.BackwardFrame((raw.as_integer ^ 0x10) if raw is not None else 0x10)
    bus = M.Bus([u], fault=fault)
    st, r = bus.run(cls.write_raw(A.GearShort(7), mkbytes([v])))
    tag = "%s/LockByte/%s" % (bname, fault_name)
    if fault_name != "none":
        ctx.prove(st == "exc" and isinstance(r, (MemoryWriteError, ResponseError)),
                  "a failed write of the lock byte gave %s %r" % (st, r), key=tag + "/silent-failure")
        return "raised" if st == "exc" else "silent"
    ctx.prove(st == "ok" and E.eq(bank.image[2], v), "lock byte write on a healthy unit: %s %r" % (st, r),
              key=tag + "/stored")
    for l in (1, 3, 4, 9):
        ctx.prove(bank.image[l] == ((l * 13 + 5) & 0xFF), "location %d changed" % l, key=tag + "/other-location")
    return "stored"


def h_write_value(ctx):
    """write(value): numbers, MASK/TMASK literals and strings go through value_to_raw."""
    import dali.memory.oem as oem
    import dali.memory.maintenance as maint
    n = 0
    for cls, val, raw in ((oem.YearOfManufacture, 23, [23]), (oem.YearOfManufacture, "MASK", [0xFF]),
                          (oem.CCT, 4000, [0x0F, 0xA0]), (oem.LuminaireColor, "RAL9016", None),
                          (oem.LuminaireColor, "", None), (oem.LuminaireColor, "x" * 24, None),
                          (maint.RatedMedianUsefulLightSourceStarts, "TMASK", [0xFF, 0xFE])):
        locs = [l.address for l in cls.locations]
        image = {l: 0x11 for l in range(256)}
        image[0] = 254
        image[2] = 0xFF
        bank = M.MemoryBank(image, 254, writable=lambda loc: "lock", has_lock=True)
        u = M.Unit("gear", short=1, banks={cls.bank.address: bank})
        st, r = M.Bus([u]).run(cls.write(1, val))
        if raw is None:
            b = val.encode("ascii")
            raw = list(b) + ([0] if len(b) < len(locs) else [])
        got = [bank.image[l] for l in locs[:len(raw)]]
        ctx.prove(st == "ok" and got == raw, "write(%r) stored %r (%s %r)" % (val, got, st, r),
                  key="writevalue/%s/%r" % (cls.__name__, val if not isinstance(val, str) else val[:8]))
        rest = [bank.image[l] for l in locs[len(raw):]]
        ctx.prove(all(x == 0x11 for x in rest), "short string write changed bytes after the terminator",
                  key="writevalue/%s/tail" % cls.__name__)
        n += 1
    for cls, val in ((oem.YearOfManufacture, "TMASK"), (oem.YearOfManufacture, 256), (oem.YearOfManufacture, -1),
                     (oem.YearOfManufacture, 1.5), (oem.LuminaireColor, "x" * 25)):
        bank = M.MemoryBank({l: 0 for l in range(256)}, 254, writable=lambda loc: "lock", has_lock=True)
        bus = M.Bus([M.Unit("gear", short=1, banks={1: bank})])
        st, r = bus.run(cls.write(1, val))
        ctx.prove(st == "exc" and not bus.frames, "write(%r) not refused before sending: %s %r" % (val, st, r),
                  key="writevalue/%s/bad:%r" % (cls.__name__, val if not isinstance(val, str) else val[:8]))
    # the flags of write() reach write_raw() as what they are: force_unlock is not ignore_feedback
    for cls, val in ((oem.LuminaireColor, "AB"), (oem.LuminaireIdentification, "C"), (oem.YearOfManufacture, 23)):
        locs = [l.address for l in cls.locations]
        for flags, faulty, expect in (({"force_unlock": True}, True, "raise"), ({"ignore_feedback": True}, True, "return"),
                                      ({"force_unlock": True}, False, "stored"), ({}, True, "raise")):
            image = {l: 0x11 for l in range(256)}
            image[0] = 254
            image[2] = 0xFF
            bank = M.MemoryBank(image, 254, writable=lambda loc: "lock", has_lock=True, stuck_lock=faulty)
            u = M.Unit("gear", short=1, banks={cls.bank.address: bank})
            st, r = M.Bus([u]).run(cls.write(1, val, **flags))
            key = "writevalue/%s/flags:%s:%s" % (cls.__name__, "+".join(sorted(flags)) or "none",
                                                 "faulty" if faulty else "healthy")
            if expect == "raise":
                ctx.prove(st == "exc" and isinstance(r, (MemoryWriteError, ResponseError)),
                          "write(%r, %r) to a unit that stays locked gave %s %r" % (val, flags, st, r), key=key)
            elif expect == "return":
                ctx.prove(st == "ok", "write(%r, %r) raised %r although feedback was to be ignored" % (val, flags, r),
                          key=key)
            else:
                ctx.prove(st == "ok" and bank.image[2] != 0x55 and bank.image[locs[0]] != 0x11,
                          "write(%r, %r) to a healthy unit: %s %r, lock byte %r" % (val, flags, st, r, bank.image[2]),
                          key=key)
            n += 1
    return "n=%d" % n


def cases(tier):
    cs = [Case("write-value", h_write_value, {})]
    for bname, hdr in MM.BANK_HEADERS.items():
        if hdr[3] or hdr[4]:
            for fault_name in ("none", "no", "echo", "framing"):
                cs.append(Case("write-%s-LockByte-%s" % (bname, fault_name), h_write_lockbyte,
                               {"bname": bname, "fault_name": fault_name}, width=128))
    vals = _values()
    for vi, (row, cls) in enumerate(vals):
        can, _ = _writable(row)
        width = row[5]
        if not can:
            cs.append(Case("write-%s-%s-readonly" % (row[1], row[2]), h_write,
                           {"vi": vi, "kind": "gear", "fault_name": "none", "nbytes": None,
                            "force_unlock": False, "ignore_feedback": False}, width=128))
            continue
        for kind in ("gear", "device"):
            if kind == "device" and tier == "quick" and vi % 3:
                continue
            for fault_name in FAULTS:
                for fu, ig in ((False, False), (True, False), (False, True)):
                    if tier == "quick" and (fu or ig) and fault_name not in ("none", "no", "lock-stuck", "dtr0-skip"):
                        continue
                    if width > 8 and tier == "quick" and (fault_name not in ("none", "no", "dtr0-stuck")
                                                          or fu or ig or kind == "device") \
                            and not (fault_name == "dtr0-skip" and not fu and not ig and kind == "gear" and width <= 24):
                        continue
                    cs.append(Case("write-%s-%s-%s-%s%s%s" % (row[1], row[2], kind, fault_name,
                                                              "-force" if fu else "", "-nofb" if ig else ""),
                                   h_write, {"vi": vi, "kind": kind, "fault_name": fault_name, "nbytes": None,
                                             "force_unlock": fu, "ignore_feedback": ig}, width=128))
        if row[7] == "str":
            lens = [0, 1, 5, width - 1] if tier == "quick" else list(range(0, width))
            for nb in lens:
                for fault_name in ("none", "no"):
                    cs.append(Case("write-%s-%s-short%d-%s" % (row[1], row[2], nb, fault_name), h_write,
                                   {"vi": vi, "kind": "gear", "fault_name": fault_name, "nbytes": nb,
                                    "force_unlock": False, "ignore_feedback": False}, width=128))
    return cs
