"""C02 - every constructible command or event decodes back to itself; illegal
arguments are rejected."""
import importlib

from symx import E, Case
from symx.core import SymInt
from harness.common import call, newdict, event_map
from spec import iec_tables as T

import dali.frame as F
import dali.command as C
import dali.address as A
import dali.gear, dali.device  # noqa
import dali.device.general as dg
import dali.device.helpers as helpers
import dali.device.pushbutton, dali.device.occupancy, dali.device.light  # noqa
import dali.gear.colour, dali.gear.converter, dali.gear.emergency  # noqa
import dali.gear.incandescent, dali.gear.led, dali.gear.general  # noqa

META = {
    "level_text": "Bounded symbolic verification of construct->decode: for every command/event class (from "
                  "the independent table, which must cover every library class), every destination and "
                  "instance kind and symbolic arguments ranging beyond the legal limits on both sides, each "
                  "path either raises - then z3 shows the arguments are illegal - or returns - then z3 shows "
                  "they are legal and that decoding the frame under the command's device type (and a map "
                  "naming the instance type for device/instance events) gives the same class with provably "
                  "equal fields, frame and text; wrong-kind addresses and wrong-type arguments must raise.",
    "level_note": "Trusted: legal ranges from /verif/spec/iec_tables.py parameter kinds (not the library's own "
                  "checks), z3/cvc5, symx semantics (each path re-run concretely). Bounds: argument ranges "
                  "address/group -2..70, instance -2..40, 4-bit -2..20, 8-bit -2..300, event fields -2..40, "
                  "event data -2..1100.",
    "explanation": "symbolic execution of constructors, add_to_frame and from_frame; 'rejected => illegal', "
                   "'accepted => legal' and field equalities are unsat queries per path",
    "bounds": ["device/instance events are decoded once through the (then empty) map object before the entry is added",
               "every table row x destination kinds (gear: short/group/broadcast/unaddressed/int; device: "
               "short/group/broadcast/unaddressed) x 9 instance kinds",
               "numbers symbolic over ranges extending 2 below and several above the legal limits "
               "(thorough: 70000 below and above)",
               "events: 11 classes x 5 schemes; AmbiguousInstanceType and UnknownEvent",
               "wrong-kind addresses and wrong-type arguments: concrete lists per argument position",
               "before every decode an unrelated 24-bit frame and an ENABLE DEVICE TYPE frame with a symbolic "
               "type are decoded (what was decoded before must not matter)",
               "per command row a second live object of the class (fixed other arguments), constructed and "
               "decoded while the first exists: the first one's frame must not change"],
    "stubs": ["isinstance/int shims", "SymDict registries", "SymKeyDict for the map in symbolic mode"],
    "outside": ["bool passed where an int is expected", "ReservedInstance arguments",
                "the Device (0xFE) instance byte on instance commands (excluded by the property)",
                "objects with address_obj (bus.Device duck type)"],
    "assumptions": [],
}

WIDE = {"on": False}


def _rng(lo, hi):
    """Argument range: thorough tier looks much further beyond the legal limits."""
    if WIDE["on"]:
        return lo - 70000, hi + 70000
    return lo, hi


GEAR_KINDS = ["short", "group", "broadcast", "unaddressed", "int"]
DEV_KINDS = ["short", "group", "broadcast", "unaddressed"]
INST_KINDS = list(T.INSTANCE)
INST_CLS = {"number": A.InstanceNumber, "group": A.InstanceGroup, "type": A.InstanceType,
            "feature_number": A.FeatureInstanceNumber, "feature_group": A.FeatureInstanceGroup,
            "feature_type": A.FeatureInstanceType, "feature_broadcast": A.FeatureInstanceBroadcast,
            "broadcast": A.InstanceBroadcast, "feature_device": A.FeatureDevice}


def _cls(part, name):
    return getattr(importlib.import_module(T.MODULE_OF_PART[part]), name, None)


def _is_int(v):
    return isinstance(v, int) or type(v) is SymInt


def _same(a, b):
    """Non-forking-ish equality of two field values (ints, addresses, ...)."""
    if _is_int(a) and _is_int(b) and not isinstance(a, bool) and not isinstance(b, bool):
        return E.eq(a, b)
    if isinstance(a, A.Address) or isinstance(a, A.Instance):
        if type(a) is not type(b):
            return False
        va = {k: v for k, v in vars(a).items()}
        vb = {k: v for k, v in vars(b).items()}
        if set(va) != set(vb):
            return False
        return E.and_(*[_same(va[k], vb[k]) for k in va]) if va else True
    if isinstance(a, tuple) and isinstance(b, tuple) and len(a) == len(b):
        return E.and_(*[_same(x, y) for x, y in zip(a, b)]) if a else True
    return type(a) is type(b) and a == b


def _compare(ctx, c, d, tag):
    """c constructed, d decoded: same class, frame, fields, text."""
    if type(d) is not type(c):
        ctx.fail("decodes to %s" % type(d).__name__, key=tag + "/class-vs-" + type(d).__name__)
        return
    ctx.prove(E.eq(d.frame.as_integer, c.frame.as_integer), "decoded object has another frame",
              key=tag + "/frame")
    vc = {k: v for k, v in vars(c).items() if k != "_data"}
    vd = {k: v for k, v in vars(d).items() if k != "_data"}
    ctx.prove(set(vc) == set(vd), "field sets differ: %s vs %s" % (sorted(vc), sorted(vd)),
              key=tag + "/fieldset")
    for k in vc:
        if k in vd:
            ctx.prove(_same(vc[k], vd[k]), "field %s differs after decode" % k, key=tag + "/field:" + k)
    st1, s1 = call(str, c)
    st2, s2 = call(str, d)
    ctx.prove(st1 == "ok" and st2 == "ok" and ctx.text_equal(s1, s2), "textual form differs after decode",
              key=tag + "/text")
    if st1 == "ok":
        ctx.observe("text", s1)


def _gear_dest(ctx, kind):
    if kind in ("short", "int"):
        n = ctx.fresh("a", *_rng(-2, 70))
        return (lambda: n if kind == "int" else A.GearShort(n)), E.between(0, n, 63)
    if kind == "group":
        n = ctx.fresh("a", *_rng(-2, 70))
        return (lambda: A.GearGroup(n)), E.between(0, n, 15)
    if kind == "broadcast":
        return (lambda: A.GearBroadcast()), True
    return (lambda: A.GearBroadcastUnaddressed()), True


def _dev_dest(ctx, kind):
    if kind == "short":
        n = ctx.fresh("a", *_rng(-2, 70))
        return (lambda: A.DeviceShort(n)), E.between(0, n, 63)
    if kind == "group":
        n = ctx.fresh("a", *_rng(-2, 70))
        return (lambda: A.DeviceGroup(n)), E.between(0, n, 31)
    if kind == "broadcast":
        return (lambda: A.DeviceBroadcast()), True
    return (lambda: A.DeviceBroadcastUnaddressed()), True


def _instance(ctx, kind):
    has, enc = T.INSTANCE[kind]
    if has:
        n = ctx.fresh("i", *_rng(-2, 40))
        return (lambda: INST_CLS[kind](n)), E.between(0, n, 31)
    return (lambda: INST_CLS[kind]()), True


def h_row(ctx, idx):
    part, name, kind, code, param, twice, answer, devtype = T.ROWS[idx]
    tag = "%d/%s" % (part, name)
    cls = _cls(part, name)
    if cls is None:
        ctx.fail("no class %s" % name, key=tag + "/missing-class")
        return "missing"
    legal = True
    if kind in ("dapc", "std"):
        ak = GEAR_KINDS[ctx.fresh_choice("ak", len(GEAR_KINDS))]
        mk, legal = _gear_dest(ctx, ak)
        if kind == "dapc":
            form = ctx.fresh_choice("pform", 3)
            if form == 0:
                p = ctx.fresh("p", *_rng(-2, 300))
                legal = E.and_(legal, E.between(0, p, 255))
            else:
                p = ["OFF", "MASK"][form - 1]
            build = lambda: cls(mk(), p)  # noqa
        elif param == "n4":
            p = ctx.fresh("p", *_rng(-2, 20))
            legal = E.and_(legal, E.between(0, p, 15))
            build = lambda: cls(mk(), p)  # noqa
        else:
            build = lambda: cls(mk())  # noqa
    elif kind == "special":
        if param is None:
            build = lambda: cls()  # noqa
        elif param == "byte":
            p = ctx.fresh("p", *_rng(-2, 300))
            legal = E.between(0, p, 255)
            build = lambda: cls(p)  # noqa
        elif param == "short":
            if ctx.fresh_bool("mask"):
                build = lambda: cls("MASK")  # noqa
            else:
                n = ctx.fresh("a", *_rng(-2, 70))
                legal = E.between(0, n, 63)
                build = lambda: cls(n)  # noqa
        else:  # init
            v = ctx.fresh_choice("init", 4)
            if v == 0:
                build = lambda: cls(broadcast=True)  # noqa
            elif v == 1:
                build = lambda: cls()  # noqa
            elif v == 2:
                n = ctx.fresh("a", *_rng(-2, 70))
                legal = E.between(0, n, 63)
                build = lambda: cls(address=n)  # noqa
            else:
                n = ctx.fresh("a", 0, 63)
                legal = False       # address together with broadcast is contradictory
                build = lambda: cls(broadcast=True, address=n)  # noqa
    elif kind == "dev":
        ak = DEV_KINDS[ctx.fresh_choice("ak", len(DEV_KINDS))]
        mk, legal = _dev_dest(ctx, ak)
        build = lambda: cls(mk())  # noqa
    elif kind == "inst":
        ak = DEV_KINDS[ctx.fresh_choice("ak", len(DEV_KINDS))]
        ik = INST_KINDS[ctx.fresh_choice("ik", len(INST_KINDS))]
        mk, l1 = _dev_dest(ctx, ak)
        mi, l2 = _instance(ctx, ik)
        legal = E.and_(l1, l2)
        build = lambda: cls(mk(), mi())  # noqa
    elif kind == "dspecial":
        if param is None:
            build = lambda: cls()  # noqa
        else:
            p = ctx.fresh("p", *_rng(-2, 300))
            legal = E.between(0, p, 255)
            build = lambda: cls(p)  # noqa
    else:  # dspecial2
        p1 = ctx.fresh("p1", *_rng(-2, 300))
        p2 = ctx.fresh("p2", *_rng(-2, 300))
        legal = E.and_(E.between(0, p1, 255), E.between(0, p2, 255))
        build = lambda: cls(p1, p2)  # noqa
    st, c = call(build)
    if st == "exc":
        ctx.prove(E.not_(legal), "legal arguments rejected: %r" % (c,), key=tag + "/legal-rejected")
        return "reject:" + type(c).__name__
    ctx.prove(legal, "illegal arguments accepted (truncated into a frame)", key=tag + "/illegal-accepted")
    # "two different commands never share a frame": another live object of the class (other, fixed
    # arguments), constructed and decoded now, must leave this command's frame alone
    from harness.c03_tables import _sibling
    sib = _sibling(kind, code, param)
    if sib is not None:
        before = c.frame.as_integer
        bits0 = len(c.frame)
        st2, c2 = call(cls, *sib[0])
        st3, d2 = call(C.from_frame, F.ForwardFrame(bits0, sib[1]), devicetype=cls.devicetype)
        ctx.prove(st2 == "ok" and st3 == "ok" and E.eq(c2.frame.as_integer, sib[1]) and E.eq(d2.frame.as_integer, sib[1]),
                  "a second command of the class has the wrong frame", key=tag + "/sibling-frame")
        ctx.prove(E.eq(c.frame.as_integer, before), "constructing / decoding another command of the class changed "
                  "this command's frame", key=tag + "/frame-shared")
    # what was decoded just before must not matter: a frame announcing any device type, and a 24-bit frame
    call(C.from_frame, F.ForwardFrame(24, 0xFFFE30))
    call(C.from_frame, F.ForwardFrame(16, 0xC100 | ctx.fresh("prime_dt", 0, 255)))
    st, d = call(C.from_frame, c.frame, devicetype=cls.devicetype)
    if st == "exc":
        ctx.fail("decode of the constructed frame raised %r" % (d,), key=tag + "/decode-raised")
        return "decode-exc"
    _compare(ctx, c, d, tag)
    return "ok"


SCHEMES = ["device", "device_instance", "device_group", "instance", "instance_group"]


def _event_kwargs(ctx, scheme):
    kw, legal = {}, True
    if scheme in ("device", "device_instance"):
        sa = ctx.fresh("sa", *_rng(-2, 70))
        obj = ctx.fresh_bool("sa_obj")
        kw["short_address"] = (lambda: A.DeviceShort(sa)) if obj else (lambda: sa)
        legal = E.and_(legal, E.between(0, sa, 63))
    if scheme in ("device_instance", "instance"):
        n = ctx.fresh("n", *_rng(-2, 40))
        kw["instance_number"] = lambda: n
        legal = E.and_(legal, E.between(0, n, 31))
    if scheme == "device_group":
        g = ctx.fresh("g", *_rng(-2, 40))
        kw["device_group"] = lambda: g
        legal = E.and_(legal, E.between(0, g, 31))
    if scheme == "instance_group":
        g = ctx.fresh("g", *_rng(-2, 40))
        kw["instance_group"] = lambda: g
        legal = E.and_(legal, E.between(0, g, 31))
    return kw, legal


def _decode_event(ctx, ev, scheme, itype):
    m = None
    if scheme == "device_instance":
        m = event_map(ctx)
        # (the application saw the frame once before it learned the instance's type; the map object is the same)
        call(C.from_frame, ev.frame, dev_inst_map=m)
        m.add_type(short_address=ev.short_address.address, instance_number=ev.instance_number,
                   instance_type=itype)
    return call(C.from_frame, ev.frame, dev_inst_map=m)


def h_event(ctx, idx):
    part, name, itype, code = T.EVENTS[idx]
    tag = "%d/%s" % (part, name)
    cls = _cls(part, name)
    if cls is None:
        ctx.fail("no event class %s" % name, key=tag + "/missing-class")
        return "missing"
    scheme = SCHEMES[ctx.fresh_choice("scheme", 5)]
    kw, legal = _event_kwargs(ctx, scheme)
    if code is None:
        if name == "OccupancyEvent":
            if ctx.fresh_bool("tuple"):
                mv, oc, rp, mt = (ctx.fresh_bool(x) for x in ("mv", "oc", "rp", "mt"))
                data = cls.EventData(movement=mv, occupied=oc, repeat=rp,
                                     sensor_type="movement" if mt else "presence")
            else:
                data = ctx.fresh("d", *_rng(-2, 1100))
                legal = E.and_(legal, E.between(0, data, 15))
        else:
            data = ctx.fresh("d", *_rng(-2, 1100))
            legal = E.and_(legal, E.between(0, data, 1023))
        kw["data"] = lambda: data
    st, ev = call(lambda: cls(**{k: v() for k, v in kw.items()}))
    if st == "exc":
        ctx.prove(E.not_(legal), "legal event arguments rejected: %r" % (ev,),
                  key=tag + "/legal-rejected:" + scheme)
        return "reject:" + type(ev).__name__
    ctx.prove(legal, "illegal event arguments accepted (truncated into a frame)",
              key=tag + "/illegal-accepted:" + scheme)
    st, d = _decode_event(ctx, ev, scheme, itype)
    if st == "exc":
        ctx.fail("decode of the constructed event raised %r" % (d,), key=tag + "/decode-raised")
        return "decode-exc"
    _compare(ctx, ev, d, tag + "/" + scheme)
    return scheme


def h_generic_event(ctx, which):
    """AmbiguousInstanceType and UnknownEvent (types without an implementation)."""
    if which == "ambiguous":
        sa = ctx.fresh("sa", *_rng(-2, 70))
        n = ctx.fresh("n", *_rng(-2, 40))
        d = ctx.fresh("d", *_rng(-2, 1100))
        legal = E.and_(E.between(0, sa, 63), E.between(0, n, 31), E.between(0, d, 1023))
        st, ev = call(lambda: dg.AmbiguousInstanceType(short_address=A.DeviceShort(sa),
                                                       instance_number=n, data=d))
        tag, scheme = "103/AmbiguousInstanceType", "device_instance"
    else:
        scheme = SCHEMES[ctx.fresh_choice("scheme", 5)]
        kw, legal = _event_kwargs(ctx, scheme)
        t = ctx.fresh("t", *_rng(-2, 40))
        d = ctx.fresh("d", *_rng(-2, 1100))
        legal = E.and_(legal, E.between(0, d, 1023))
        if scheme != "device_instance":
            legal = E.and_(legal, E.between(0, t, 31))
        # an implemented type would (rightly) decode to its own class
        ctx.assume(E.and_(E.ne(t, 1), E.ne(t, 3), E.ne(t, 4)))
        st, ev = call(lambda: dg.UnknownEvent(instance_type=t, data=d, **{k: v() for k, v in kw.items()}))
        tag = "103/UnknownEvent"
    if st == "exc":
        ctx.prove(E.not_(legal), "legal arguments rejected: %r" % (ev,), key=tag + "/legal-rejected")
        return "reject"
    ctx.prove(legal, "illegal arguments accepted", key=tag + "/illegal-accepted:" + scheme)
    if which == "ambiguous":
        st, dd = call(C.from_frame, ev.frame)
    else:
        st, dd = _decode_event(ctx, ev, scheme, t)
    if st == "exc":
        ctx.fail("decode raised %r" % (dd,), key=tag + "/decode-raised")
        return "decode-exc"
    _compare(ctx, ev, dd, tag + "/" + scheme)
    return "ok:" + scheme


# --- wrong kinds / wrong types (concrete lists) ------------------------------------------------

def h_wrong(ctx, part):
    bad_types = ["1", 1.5, None, [1], b"\x01"]
    gear_addrs = [A.GearShort(1), A.GearGroup(1), A.GearBroadcast(), A.GearBroadcastUnaddressed()]
    dev_addrs = [A.DeviceShort(1), A.DeviceGroup(1), A.DeviceBroadcast(), A.DeviceBroadcastUnaddressed()]
    n = 0

    def must_raise(fn, what):
        nonlocal n
        n += 1
        st, r = call(fn)
        ctx.prove(st == "exc", "%s accepted: frame %s" % (what, getattr(getattr(r, "frame", None),
                                                                        "as_integer", None)),
                  key="wrong/" + what)

    for (p, name, kind, code, param, twice, answer, devtype) in T.ROWS:
        if p != part:
            continue
        cls = _cls(p, name)
        if cls is None:
            continue
        t = "%d/%s" % (p, name)
        if kind in ("dapc", "std"):
            extra = (1,) if (kind == "dapc" or param == "n4") else ()
            for a in dev_addrs:
                must_raise(lambda: cls(a, *extra), t + "/device-address:" + type(a).__name__)
            for b in bad_types:
                must_raise(lambda: cls(b, *extra), t + "/dest-type:" + type(b).__name__)
                if extra:
                    must_raise(lambda: cls(A.GearShort(1), b), t + "/param-type:" + type(b).__name__)
            must_raise(lambda: cls(), t + "/no-args")
            must_raise(lambda: cls(A.GearShort(1), *extra, 1), t + "/extra-arg")
        elif kind == "special":
            if param in ("byte", "short"):
                for b in bad_types:
                    must_raise(lambda: cls(b), t + "/param-type:" + type(b).__name__)
                must_raise(lambda: cls(), t + "/no-args")
            elif param is None:
                must_raise(lambda: cls(1), t + "/extra-arg")
            else:
                for b in ["1", 1.5, [1]]:
                    must_raise(lambda: cls(address=b), t + "/address-type:" + type(b).__name__)
        elif kind == "dev":
            for a in gear_addrs + [5]:
                must_raise(lambda: cls(a), t + "/gear-address:" + type(a).__name__)
            for b in bad_types:
                must_raise(lambda: cls(b), t + "/dest-type:" + type(b).__name__)
        elif kind == "inst":
            for a in gear_addrs + [5]:
                must_raise(lambda: cls(a, A.InstanceNumber(1)), t + "/gear-address:" + type(a).__name__)
            for b in bad_types + [1]:
                must_raise(lambda: cls(A.DeviceShort(1), b), t + "/instance-type:" + type(b).__name__)
            for b in bad_types:
                must_raise(lambda: cls(b, A.InstanceNumber(1)), t + "/dest-type:" + type(b).__name__)
        elif kind == "dspecial":
            if param is not None:
                for b in bad_types:
                    must_raise(lambda: cls(b), t + "/param-type:" + type(b).__name__)
            else:
                must_raise(lambda: cls(1), t + "/extra-arg")
        else:
            for b in bad_types:
                must_raise(lambda: cls(b, 1), t + "/param1-type:" + type(b).__name__)
                must_raise(lambda: cls(1, b), t + "/param2-type:" + type(b).__name__)
    for (p, name, itype, code) in T.EVENTS:
        if p != part:
            continue
        cls = _cls(p, name)
        t = "%d/%s" % (p, name)
        dk = {} if code is not None else {"data": 1}
        for b in ["1", 1.5, [1]]:
            must_raise(lambda: cls(short_address=b, **dk), t + "/short-type:" + type(b).__name__)
            must_raise(lambda: cls(instance_number=b, **dk), t + "/instnum-type:" + type(b).__name__)
            must_raise(lambda: cls(device_group=b, **dk), t + "/devgroup-type:" + type(b).__name__)
            must_raise(lambda: cls(instance_group=b, **dk), t + "/instgroup-type:" + type(b).__name__)
            if code is None:
                must_raise(lambda: cls(instance_number=1, data=b), t + "/data-type:" + type(b).__name__)
        must_raise(lambda: cls(**dk), t + "/no-source")
        must_raise(lambda: cls(short_address=A.GearShort(1), **dk), t + "/gear-address")
        must_raise(lambda: cls(short_address=1, device_group=1, **dk), t + "/short+devgroup")
        must_raise(lambda: cls(short_address=1, instance_group=1, **dk), t + "/short+instgroup")
        must_raise(lambda: cls(device_group=1, instance_group=1, **dk), t + "/devgroup+instgroup")
        must_raise(lambda: cls(device_group=1, instance_number=1, **dk), t + "/devgroup+instnum")
        must_raise(lambda: cls(instance_group=1, instance_number=1, **dk), t + "/instgroup+instnum")
    return "n=%d" % n


def cases(tier):
    WIDE["on"] = tier == "thorough"
    cs = []
    # (the few event cases first: they are the ones with a history - decode, add_type, decode - and a run that
    # finds a violation stops early)
    for i, e in enumerate(T.EVENTS):
        cs.append(Case("event-%s" % e[1], h_event, {"idx": i}))
    cs.append(Case("event-ambiguous", h_generic_event, {"which": "ambiguous"}))
    cs.append(Case("event-unknown", h_generic_event, {"which": "unknown"}))
    for i, r in enumerate(T.ROWS):
        cs.append(Case("row-%d-%s" % (r[0], r[1]), h_row, {"idx": i}))
    for part in sorted(T.MODULE_OF_PART):
        cs.append(Case("wrong-%d" % part, h_wrong, {"part": part}))
    return cs
