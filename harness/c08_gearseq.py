"""C08 - gear query/set sequences report and establish exactly the gear's state."""
from symx import E, Case
from harness.common import call
from spec import models as M

import dali.frame as F
import dali.command as C
import dali.address as A
import dali.sequences as S
from dali.exceptions import DALISequenceError

META = {
    "level_text": "Bounded symbolic verification of QueryDeviceTypes / QueryGroups / SetGroups: against a "
                  "conforming gear model with a symbolic sorted device-type list (length 0..4, values 0..253) "
                  "the query returns exactly that list; against every answer stream of length <= 6 whose "
                  "answers are symbolic (none / clean byte / framing error) the sequence either raises "
                  "DALISequenceError at the first offending answer or returns the list the transcript "
                  "denotes; group queries return exactly the symbolic membership bits; SetGroups leaves "
                  "membership equal to the request with only the necessary commands.",
    "level_note": "Trusted: gear model in /verif/spec/models.py acting on frame bits, z3/cvc5, symx semantics "
                  "(each path re-run concretely). Bounds: type lists <= 4 entries, answer streams <= 6 "
                  "(thorough 7), group sets: quick = low byte symbolic x 3 high bytes, thorough = low byte symbolic x 20 high bytes.",
    "explanation": "symbolic execution of the real generators driven by the model or by a scripted symbolic "
                   "answer stream",
    "bounds": ["queried set edited and fed back (5 first answers x 3 edits x 15 later answers); read-back fault with int and object destination",
               "device type lists of length 0..4 with symbolic strictly ascending values in 0..253",
               "adversarial answer streams of length <= 6 (thorough 7), every answer none / clean / framing "
               "error with a symbolic byte", "group membership: see level_note",
               "SetGroups: destinations short / int / group (incl. a group the request leaves) / broadcast / "
               "broadcast-unaddressed (two unaddressed units and an addressed bystander) x 7 requested sets x "
               "symbolic current state",
               "two runs in one process (independent units): SetGroups to group/broadcast destinations with "
               "different requests, QueryDeviceTypes twice, answer streams of length 3 twice"],
    "stubs": ["isinstance/int shims"],
    "outside": ["the byte 255 inside a QUERY NEXT DEVICE TYPE stream and a single type reported through the "
                "MASK path (unspecified by the property: either outcome accepted)",
                "answer streams longer than the bound"],
    "assumptions": [],
}


# ---------------------------------------------------------------------------------------------

def h_types_conforming(ctx, n):
    ts = []
    prev = -1
    for i in range(n):
        t = ctx.fresh("t%d" % i, 0, 253)
        ctx.assume(E.gt(t, prev))
        ts.append(t)
        prev = t
    a = ctx.fresh("a", 0, 63)
    u = M.Unit("gear", short=a, devtypes=ts)
    bus = M.Bus([u, M.Unit("gear", short=MASKED_OTHER, devtypes=[1, 2])])
    dest = A.GearShort(a) if ctx.fresh_bool("obj") else a
    st, r = bus.run(S.QueryDeviceTypes(dest))
    if st != "ok":
        ctx.fail("conforming gear with %d types: %s %r" % (n, st, r), key="types/conforming-raised:n=%d" % n)
        return "raised"
    if not isinstance(r, list) or len(r) != n:
        ctx.fail("returned %r for a gear with %d types" % (r, n), key="types/conforming-length:n=%d" % n)
        return "badlen"
    ctx.prove(E.and_(*[E.eq(x, y) for x, y in zip(r, ts)]) if n else True,
              "returned types differ from the gear's list", key="types/conforming-values:n=%d" % n)
    ctx.prove(len(bus.commands) <= n + 2, "more commands than necessary", key="types/conforming-count")
    ctx.observe("types", r)
    return "ok%d" % n


MASKED_OTHER = 255


def h_types_stream(ctx, L):
    """Scripted answers.  Each answer: kind (0 none, 1 clean, 2 error) and byte."""
    g = S.QueryDeviceTypes(A.GearShort(3))
    script = []
    resp = None
    ncmd = 0
    accepted = []          # types the transcript has delivered so far (after a MASK start)
    phase = "first"
    unspec = False
    must_raise_at = None   # step at which a conforming reading must already have failed
    expect = None          # ('return', list) once the transcript is complete
    try:
        while True:
            cmd = g.send(resp)
            if not isinstance(cmd, C.Command):
                resp = None
                continue
            if ncmd >= L:
                g.close()
                ctx.prove(must_raise_at is None, "sequence kept asking after an answer that had to stop it "
                          "(step %s)" % must_raise_at, key="stream/continued-after-bad-answer")
                return "wants-more"
            kind = ctx.fresh_choice("k%d" % ncmd, 3)
            byte = ctx.fresh("b%d" % ncmd, 0, 255)
            raw = None if kind == 0 else (F.BackwardFrame(byte) if kind == 1 else F.BackwardFrameError(byte))
            # --- what a faithful reading of the transcript says
            want = 0x99 if phase == "first" else 0xA7
            ctx.prove(E.and_(E.eq(cmd.frame.as_integer & 0xFF, want), len(cmd.frame) == 16),
                      "step %d is not the expected query" % ncmd, key="stream/wrong-command")
            if must_raise_at is None:
                if kind != 1:
                    must_raise_at = ncmd
                elif phase == "first":
                    if byte == 255:
                        phase = "next"
                    elif byte == 254:
                        expect = ("return", [])
                    else:
                        expect = ("return", [byte])
                else:
                    if byte == 254:
                        expect = ("return", list(accepted))
                    elif byte == 255 and not unspec:
                        # 255 as a 'next device type': whether it is recorded or rejected is not
                        # specified, but it is the largest possible answer, so whatever follows
                        # (other than the 254 terminator) is a repeat / out of order and must stop
                        # the sequence: the command count stays bounded
                        unspec = True
                        accepted.append(255)
                    elif accepted and bool(E.le(byte, accepted[-1])):
                        must_raise_at = ncmd
                    else:
                        accepted.append(byte)
            ncmd += 1
            resp = cmd.response(raw)
    except StopIteration as e:
        r = e.value
        if unspec and must_raise_at is None:
            return "unspecified"
        if must_raise_at is not None:
            ctx.fail("returned %r although answer %d was missing, garbled, repeated or out of order"
                     % (r, must_raise_at), key="stream/returned-after-bad-answer")
            return "wrong-return"
        if expect is None:
            ctx.fail("returned %r before the transcript was complete" % (r,), key="stream/early-return")
            return "early"
        want = expect[1]
        if phase == "next" and len(want) < 2:
            return "unspecified-short-mask-list"
        ok = isinstance(r, list) and len(r) == len(want) and \
            bool(E.and_(*[E.eq(x, y) for x, y in zip(r, want)]) if want else True)
        ctx.prove(ok, "returned %r, transcript denotes %r" % (r, want), key="stream/wrong-list")
        return "return%d" % len(want)
    except DALISequenceError:
        if unspec and must_raise_at is None:
            return "unspecified"
        if must_raise_at is None and expect is not None and not (phase == "next" and len(expect[1]) < 2):
            ctx.fail("DALISequenceError on a conforming transcript denoting %r" % (expect[1],),
                     key="stream/raised-on-conforming")
            return "spurious-raise"
        if must_raise_at is not None:
            ctx.prove(ncmd == must_raise_at + 1, "error raised %d commands after the offending answer"
                      % (ncmd - must_raise_at - 1), key="stream/late-raise")
        return "raise"
    except Exception as e:  # noqa
        ctx.fail("unrelated exception %r" % (e,), key="stream/other-exception:" + type(e).__name__)
        return "other-exc"


# ---------------------------------------------------------------------------------------------

def _fault_fn(ctx, nsteps):
    """At most one fault: (step, kind) with kind 1 = silence, 2 = framing error."""
    step = ctx.fresh_choice("fault_step", nsteps + 1)     # == nsteps: no fault
    kind = ctx.fresh_choice("fault_kind", 2) + 1 if step < nsteps else 0

    def fault(n, cmd, raw):
        if n == step and cmd.response is not None:
            if kind == 1:
                return None
            return F.BackwardFrameError(raw.as_integer if raw is not None else 0)
        return raw
    return fault, step, kind


def h_query_groups(ctx, highs):
    g0 = ctx.fresh("g0", 0, 255)
    if highs is None:
        g1 = ctx.fresh("g1", 0, 255)
    else:
        g1 = highs[ctx.fresh_choice("g1i", len(highs))]
    a = ctx.fresh("a", 0, 63)
    fault, step, kind = _fault_fn(ctx, 2)
    u = M.Unit("gear", short=a, groups=(g1 << 8) | g0)
    bus = M.Bus([u], fault=fault)
    st, r = bus.run(S.QueryGroups(A.GearShort(a) if ctx.fresh_bool("obj") else a))
    if step < 2:
        ctx.prove(st == "exc" and isinstance(r, DALISequenceError),
                  "silent/garbled answer at step %d gave %s %r" % (step, st, r),
                  key="groups/fault-not-reported:step%d-kind%d" % (step, kind))
        ctx.prove(len(bus.commands) <= 2, "too many commands", key="groups/fault-count")
        return "fault"
    if st != "ok":
        ctx.fail("query groups: %s %r" % (st, r), key="groups/raised")
        return "raised"
    ctx.prove(isinstance(r, set), "result is not a set", key="groups/type")
    word = (g1 << 8) | g0
    for i in range(16):
        ctx.prove(E.iff(i in r, E.bit(word, i)), "group %d reported wrongly" % i, key="groups/bit%d" % i)
    ctx.prove(all(isinstance(i, int) and 0 <= i <= 15 for i in r), "foreign members in the result",
              key="groups/members")
    ctx.prove(len(bus.commands) == 2, "not exactly two queries", key="groups/count")
    return "n=%d" % len(r)


def h_query_mutate(ctx):
    """The set a group query returns belongs to the caller: changing it and feeding it to SetGroups, or asking
    again afterwards, must behave as if it had been a fresh set."""
    firsts = [(0x05, 0x00), (0x00, 0xA0), (0x00, 0x00), (0xFF, 0x00), (0x81, 0x42)]
    g0, g1 = firsts[ctx.fresh_choice("first", len(firsts))]
    a = 7
    u = M.Unit("gear", short=a, groups=(g1 << 8) | g0)
    bus = M.Bus([u])
    st, r = bus.run(S.QueryGroups(a))
    if st != "ok" or not isinstance(r, set):
        ctx.fail("query groups: %s %r" % (st, r), key="groups/raised")
        return "raised"
    edit_ = ctx.fresh_choice("edit", 3)
    if edit_ == 0:
        r.add(9)
        r.discard(0)
    elif edit_ == 1:
        r.clear()
    else:
        r.update({1, 12})
    want = sum(1 << i for i in r)
    st, x = bus.run(S.SetGroups(a, r))
    ctx.prove(st == "ok" and E.eq(u.groups, want),
              "SetGroups with an edited copy of the queried set left other membership than requested",
              key="groups/edited-result")
    # ... and a later query of a unit answering with the same (or another) byte pattern is exact
    lows, highs = [0x05, 0x00, 0xFF, 0x81, 0x0A], [0x00, 0xA0, 0x42]
    h0, h1 = lows[ctx.fresh_choice("again_g0", len(lows))], highs[ctx.fresh_choice("again_g1", len(highs))]
    u2 = M.Unit("gear", short=9, groups=(h1 << 8) | h0)
    st, r2 = M.Bus([u2]).run(S.QueryGroups(9))
    ctx.prove(st == "ok" and isinstance(r2, set) and r2 == {i for i in range(16) if ((h1 << 8) | h0) >> i & 1},
              "a group query after an edited result reported %r for 0x%04x" % (r2, (h1 << 8) | h0),
              key="groups/after-edited-result")
    return "ok"


REQUESTS = [set(), {0}, {15}, {0, 15}, {1, 2, 3, 8, 9}, set(range(16)), {5, 7, 10, 12, 14}]
DESTS = ["short", "int", "group", "broadcast", "unaddressed"]


def h_set_groups_fault(ctx, dk):
    """The read-back of the current membership fails: the sequence stops with DALISequenceError before
    changing anything, however the destination was given."""
    kind = DESTS[dk]
    a = 21
    cur = ctx.fresh("cur", 0, 3) * 0x4081
    fault, step, fk = _fault_fn(ctx, 2)
    ctx.assume(step < 2)
    u = M.Unit("gear", short=a, groups=cur)
    bus = M.Bus([u], fault=fault)
    st, r = bus.run(S.SetGroups(a if kind == "int" else A.GearShort(a), {1, 14}))
    ctx.prove(st == "exc" and isinstance(r, DALISequenceError),
              "silent/garbled read-back at step %d gave %s %r" % (step, st, r),
              key="setgroups/fault-not-reported:%s-step%d-kind%d" % (kind, step, fk))
    ctx.prove(E.eq(u.groups, cur), "membership changed although the read-back failed", key="setgroups/fault-changed")
    return "fault"


def h_set_groups(ctx, dk, ri, highs):
    req = REQUESTS[ri]
    kind = DESTS[dk]
    g0 = ctx.fresh("g0", 0, 255)
    g1 = ctx.fresh("g1", 0, 255) if (highs is None or kind in ("group", "broadcast", "unaddressed")) \
        else highs[ctx.fresh_choice("g1i", len(highs))]
    cur = (g1 << 8) | g0
    a = [0, 63, 17, 32][(ri + dk) % 4]       # the address is not the subject here
    if kind == "group":
        gsel = ctx.fresh("gsel", 0, 15)
        # the unit is reachable through the group used as destination when the sequence starts; the
        # request may well remove it from that very group
        ctx.assume(E.bit(cur, gsel))
        dest = A.GearGroup(gsel)
    elif kind == "broadcast":
        dest = A.GearBroadcast()
    elif kind == "unaddressed":
        dest = A.GearBroadcastUnaddressed()
    else:
        dest = a if kind == "int" else A.GearShort(a)
    u = M.Unit("gear", short=255 if kind == "unaddressed" else a, groups=cur)
    other = M.Unit("gear", short=MASKED_OTHER, groups=0x1234)
    if kind == "unaddressed":
        # "all gear without a short address": two of them (they would collide on any query) and an
        # addressed bystander that must not be touched
        u2 = M.Unit("gear", short=255, groups=ctx.fresh("h", 0, 0xFFFF))
        other = M.Unit("gear", short=12, groups=0x1234)
        bus = M.Bus([u, u2, other])
    else:
        bus = M.Bus([u] if kind in ("group", "broadcast") else [u, other])
    st, r = bus.run(S.SetGroups(dest, set(req)))
    if st != "ok":
        ctx.fail("set groups: %s %r" % (st, r), key="setgroups/raised:" + kind)
        return "raised"
    want = sum(1 << i for i in req)
    ctx.prove(E.eq(u.groups, want), "membership after SetGroups differs from the request",
              key="setgroups/final:" + kind)
    ncfg = len([c for c in bus.commands if c.response is None])
    if kind in ("short", "int"):
        # exactly the symmetric difference
        diff = cur ^ want
        cnt = 0
        for i in range(16):
            cnt = cnt + ((diff >> i) & 1)
        ctx.prove(E.eq(ncfg, cnt), "issued %d changes, symmetric difference differs" % ncfg,
                  key="setgroups/minimal:" + kind)
        ctx.prove(E.eq(other.groups, 0x1234), "another unit was changed", key="setgroups/other")
    else:
        ctx.prove(ncfg == 16, "issued %d commands instead of 16" % ncfg, key="setgroups/sixteen:" + kind)
    if kind == "unaddressed":
        ctx.prove(E.eq(u2.groups, want), "the second unaddressed unit's membership differs from the request",
                  key="setgroups/final-second:" + kind)
        ctx.prove(E.eq(other.groups, 0x1234), "an addressed unit was changed", key="setgroups/other:" + kind)
    ctx.observe("groups", u.groups)
    return "ok"


def h_set_groups_twice(ctx, dk, ri1, ri2, highs):
    """Two runs in one process with different requests (and independent units)."""
    with ctx.namespace("first."):
        a = h_set_groups(ctx, dk, ri1, highs)
    return "%s | %s" % (a, h_set_groups(ctx, dk, ri2, highs))


def cases(tier):
    L = 6 if tier == "quick" else 7
    # (thorough: 20 of the 256 high bytes x every low byte; all 2^16 x faults x every obligation through the second
    # solver as well did not finish in 50 minutes on a loaded machine)
    highs = [0x00, 0xFF, 0xA5] if tier == "quick" else sorted(set(range(0, 256, 15)) | {0xFF, 0xA5, 0x5A})
    cs = [Case("types-conforming-%d" % n, h_types_conforming, {"n": n}) for n in range(5)]
    cs.append(Case("types-stream", h_types_stream, {"L": L}))
    cs.append(Case("query-groups", h_query_groups, {"highs": highs}))
    cs.append(Case("query-groups-edited", h_query_mutate, {}))
    for dk in (0, 1):
        cs.append(Case("set-groups-fault-%s" % DESTS[dk], h_set_groups_fault, {"dk": dk}))
    for dk in range(len(DESTS)):
        for ri in range(len(REQUESTS)):
            cs.append(Case("set-groups-%s-%d" % (DESTS[dk], ri), h_set_groups,
                           {"dk": dk, "ri": ri, "highs": [0x00, 0xFF, 0xA5] if tier == "quick" else
                            [0x00, 0xFF, 0xA5, 0x5A, 0x01, 0x80, 0x3C, 0xC3]}))
    # histories: the same sequence twice in one process, with other requests / other units
    nreq = len(REQUESTS)
    for dk in range(len(DESTS)):
        for ri1, ri2 in ((nreq - 1, 1), (2, nreq - 2), (1, 0)):
            if DESTS[dk] in ("short", "int"):
                continue        # 768 paths per run: the square is out of reach; blind destinations only
            hs = [0x00, 0xFF, 0xA5]
            cs.append(Case("set-groups-twice-%s-%d-%d" % (DESTS[dk], ri1, ri2), h_set_groups_twice,
                           {"dk": dk, "ri1": ri1, "ri2": ri2, "highs": hs}))
    for n in (1, 2):
        cs.append(Case("types-conforming-twice-%d" % n, h_types_conforming, {"n": n}, repeat=2))
    cs.append(Case("types-stream-twice", h_types_stream, {"L": 3}, repeat=2))
    return cs
