"""C04 - address and instance bytes: exact, local, mutually exclusive codec."""
from symx import E, Case
from harness.common import call, address_classes

import dali.frame as F
import dali.address as A
from dali.exceptions import IncompatibleFrame

META = {
    "level_text": "Bounded symbolic verification of dali.address: for every address/instance kind with a "
                  "symbolic number and a fully symbolic 16/24-bit frame, z3 shows add_to_frame changes only "
                  "the address/instance field, the field holds the standard's encoding, and reading back "
                  "gives an equal object; for every symbolic frame the decoded kind equals the standard's "
                  "partition of the address/instance byte and at most one registered kind matches; wrong "
                  "frame sizes 1..64 are refused with the frame unchanged; == holds exactly for same kind "
                  "and number over all ordered pairs of kinds.",
    "level_note": "Trusted: z3/cvc5, symx integer semantics (every path re-run concretely on the plain code). "
                  "Reference partition written in the harness from IEC 62386-102 7.2 / -103 7.2.1. Bounds: "
                  "frame widths <= 64; numbers over their full legal range.",
    "explanation": "symbolic execution of add_to_frame / from_frame / instance_from_frame / __eq__ on "
                   "symbolic frames and numbers; obligations are unsat queries per path",
    "bounds": ["address decode from ForwardFrame, plain Frame and concatenated frames of the same bits",
               "all 2^16 / 2^24 frames (symbolic)", "all legal address / group / instance numbers (symbolic)",
               "wrong widths 1..64 (quick: 1..32)", "ReservedInstance objects (what reserved instance bytes decode to): refusal of wrong sizes and exact write-back", "write histories: the writers' slices written into frames of other widths first", "decode histories: a symbolic frame of another width "
               "(9/12/16/17/20/24/32 bits) decoded first", "all ordered pairs of the 8 address kinds and of the "
               "10 instance kinds + ReservedInstance"],
    "stubs": ["isinstance/int shims"],
    "outside": ["frame widths > 64", "ReservedInstance constructed by hand with non-byte values",
                "equality against non-address objects"],
    "assumptions": [],
}

GEAR = [("GearShort", A.GearShort, 63), ("GearGroup", A.GearGroup, 15),
        ("GearBroadcast", A.GearBroadcast, None),
        ("GearBroadcastUnaddressed", A.GearBroadcastUnaddressed, None)]
DEVICE = [("DeviceShort", A.DeviceShort, 63), ("DeviceGroup", A.DeviceGroup, 31),
          ("DeviceBroadcast", A.DeviceBroadcast, None),
          ("DeviceBroadcastUnaddressed", A.DeviceBroadcastUnaddressed, None)]
INST = [("InstanceNumber", A.InstanceNumber, 0x00), ("InstanceGroup", A.InstanceGroup, 0x80),
        ("InstanceType", A.InstanceType, 0xC0), ("FeatureInstanceNumber", A.FeatureInstanceNumber, 0x20),
        ("FeatureInstanceGroup", A.FeatureInstanceGroup, 0xA0),
        ("FeatureInstanceType", A.FeatureInstanceType, 0x60)]
UNINST = [("FeatureInstanceBroadcast", A.FeatureInstanceBroadcast, 0xFD),
          ("InstanceBroadcast", A.InstanceBroadcast, 0xFF),
          ("FeatureDevice", A.FeatureDevice, 0xFC), ("Device", A.Device, 0xFE)]


def _num(a):
    if hasattr(a, "address"):
        return a.address
    if hasattr(a, "group"):
        return a.group
    return None


def _ref_addr_bits(name, n):
    """The 7 address bits the standard assigns (IEC 62386-102 7.2.2, -103 7.2.1.2)."""
    if name.endswith("Short"):
        return n                      # 0AAAAAA
    if name == "GearGroup":
        return 0x40 | n               # 100AAAA
    if name == "DeviceGroup":
        return 0x40 | n               # 10AAAAA
    if name.endswith("BroadcastUnaddressed"):
        return 0x7E
    return 0x7F


def _mkaddr(ctx, name, cls, mx, tag="n"):
    if mx is None:
        return cls(), None
    n = ctx.fresh(tag, 0, mx)
    return cls(n), n


def _other_frames_first():
    """History for the write cases: the same slices the address / instance writers use, written into frames of
    the *other* width (and a few more) before - what was computed for one frame must not be applied to another."""
    for bits in (16, 24, 8, 32):
        g = F.ForwardFrame(bits, 0)
        for hi, lo in ((15, 8), (7, 0), (15, 9), (23, 17), (23, 16), (12, 9), (14, 10), (21, 17), (8, 8), (16, 16)):
            if hi < bits:
                g[hi:lo] = 1


def h_write(ctx, kind, device):
    _other_frames_first()
    name, cls, mx = (DEVICE if device else GEAR)[kind]
    bits = 24 if device else 16
    shift = bits - 7
    x = ctx.fresh("x", 0, (1 << bits) - 1)
    a, n = _mkaddr(ctx, name, cls, mx)
    f = F.ForwardFrame(bits, x)
    st, r = call(a.add_to_frame, f)
    if st == "exc":
        ctx.fail("add_to_frame raised %r" % (r,), key="write/raised:" + name)
        return "exc"
    low = (1 << shift) - 1
    ctx.prove(E.eq(f.__len__(), bits), "frame width changed", key="write/width:" + name)
    ctx.prove(E.eq(f.as_integer & low, x & low), "bits outside the address field changed",
              key="write/local:" + name)
    ctx.prove(E.eq(f.as_integer >> shift, _ref_addr_bits(name, n)),
              "address field is not the standard's encoding", key="write/bits:" + name)
    if device:
        f[16] = True
    b = A.from_frame(f)
    ctx.prove(type(b) is cls, "read back as %s" % type(b).__name__, key="write/readback-kind:" + name)
    if type(b) is cls:
        ctx.prove(b == a and not (b != a) and a == b, "read-back object is not equal to the original",
                  key="write/readback-eq:" + name)
        if n is not None:
            ctx.prove(E.eq(_num(b), n), "read-back number differs", key="write/readback-num:" + name)
    ctx.observe("frame", f.as_integer)
    return name


def _ref_partition(ctx, x, bits):
    """(kind name or None, number or None) by the standard's partition; forks."""
    if bits == 16:
        a7 = x >> 9
        if (a7 >> 6) == 0:
            return "GearShort", a7 & 63
        if (a7 >> 4) == 0b100:
            return "GearGroup", a7 & 15
        if a7 == 0x7F:
            return "GearBroadcast", None
        if a7 == 0x7E:
            return "GearBroadcastUnaddressed", None
        return None, None
    if ((x >> 16) & 1) == 0:
        return None, None
    a7 = x >> 17
    if (a7 >> 6) == 0:
        return "DeviceShort", a7 & 63
    if (a7 >> 5) == 0b10:
        return "DeviceGroup", a7 & 31
    if a7 == 0x7F:
        return "DeviceBroadcast", None
    if a7 == 0x7E:
        return "DeviceBroadcastUnaddressed", None
    return None, None


def h_read(ctx, bits):
    x = ctx.fresh("x", 0, (1 << bits) - 1)
    # the serial drivers and frame concatenation hand over plain Frame objects: same bits, same address
    shape = ("forward", "plain", "concatenated")[ctx.fresh_choice("frame_object", 3)]
    if shape == "forward":
        f = F.ForwardFrame(bits, x)
    elif shape == "plain":
        f = F.Frame(bits, x)
    else:
        f = F.ForwardFrame(8, x >> (bits - 8)) + F.ForwardFrame(bits - 8, x & ((1 << (bits - 8)) - 1))
    st, a = call(A.from_frame, f)
    if st == "exc":
        ctx.fail("address decode raised %r" % (a,), key="read/raised")
        return "exc"
    refk, refn = _ref_partition(ctx, x, bits)
    got = type(a).__name__ if a is not None else None
    ctx.prove(got == refk, "decoded kind %s, standard says %s" % (got, refk),
              key="read/kind:%s-vs-%s" % (got, refk))
    if a is not None and refn is not None and got == refk:
        ctx.prove(E.eq(_num(a), refn), "decoded number differs from the address bits",
                  key="read/num:" + got)
    # mutual exclusion: every registered kind asked separately
    hits = []
    for at in address_classes():
        st2, r = call(at.from_frame, f)
        if st2 == "exc":
            ctx.fail("%s.from_frame raised %r" % (at.__name__, r), key="read/raised:" + at.__name__)
        elif r is not None:
            hits.append(type(r).__name__)
    ctx.prove(len(hits) <= 1, "frame matches several address kinds: %s" % hits, key="read/exclusive")
    ctx.prove(hits == ([refk] if refk else []), "per-kind decode %s differs from partition %s" % (hits, refk),
              key="read/per-kind")
    ctx.prove(E.eq(f.as_integer, x), "address decode modified the frame", key="read/mutated")
    return str(refk)


def _ref_instance(ctx, b):
    fl = b >> 5
    for name, cls, flags in INST:
        if fl == (flags >> 5):
            return name, b & 31
    for name, cls, val in UNINST:
        if b == val:
            return name, None
    return "ReservedInstance", b


def h_inst_read(ctx):
    x = ctx.fresh("x", 0, 0xFFFFFF)
    f = F.ForwardFrame(24, x)
    st, i = call(A.instance_from_frame, f)
    if st == "exc":
        ctx.fail("instance decode raised %r" % (i,), key="iread/raised")
        return "exc"
    b = (x >> 8) & 0xFF
    refk, refv = _ref_instance(ctx, b)
    ctx.prove(type(i).__name__ == refk, "decoded instance kind %s, standard says %s"
              % (type(i).__name__, refk), key="iread/kind:%s-vs-%s" % (type(i).__name__, refk))
    if refv is not None and type(i).__name__ == refk:
        ctx.prove(E.eq(i.value, refv), "decoded instance value differs", key="iread/value:" + refk)
    st, s = call(str, i)
    ctx.prove(st == "ok", "str(instance) raised", key="iread/str:" + refk)
    ctx.prove(E.eq(f.as_integer, x), "instance decode modified the frame", key="iread/mutated")
    return refk


def h_inst_write(ctx, kind):
    _other_frames_first()
    x = ctx.fresh("x", 0, 0xFFFFFF)
    if kind < len(INST):
        name, cls, flags = INST[kind]
        n = ctx.fresh("n", 0, 31)
        obj = cls(n)
        ref = flags | n
    elif kind < len(INST) + len(UNINST):
        name, cls, ref = UNINST[kind - len(INST)]
        n = None
        obj = cls()
    else:
        name, cls = "ReservedInstance", A.ReservedInstance
        n = ctx.fresh("n", 0, 255)
        # reserved = not claimed by any other kind
        ctx.assume(E.or_(E.eq(n >> 5, 2), E.and_(E.eq(n >> 5, 7), E.lt(n, 0xFC))))
        obj = cls(n)
        ref = n
    f = F.ForwardFrame(24, x)
    st, r = call(obj.add_to_frame, f)
    if st == "exc":
        ctx.fail("instance add_to_frame raised %r" % (r,), key="iwrite/raised:" + name)
        return "exc"
    ctx.prove(E.eq(f.__len__(), 24), "frame width changed", key="iwrite/width:" + name)
    ctx.prove(E.eq(f.as_integer & 0xFF00FF, x & 0xFF00FF), "bits outside the instance byte changed",
              key="iwrite/local:" + name)
    ctx.prove(E.eq((f.as_integer >> 8) & 0xFF, ref), "instance byte is not the standard's encoding",
              key="iwrite/bits:" + name)
    back = A.instance_from_frame(f)
    ctx.prove(type(back) is cls, "instance read back as %s" % type(back).__name__,
              key="iwrite/readback-kind:" + name)
    if type(back) is cls:
        ctx.prove(back == obj and obj == back and not (back != obj),
                  "read-back instance object is not equal to the original", key="iwrite/readback-eq:" + name)
    return name


def h_size(ctx, kind, B):
    allk = GEAR + DEVICE + [(n, c, 31) for n, c, _ in INST] + [(n, c, None) for n, c, _ in UNINST]
    name, cls, mx = allk[kind]
    req = 16 if kind < len(GEAR) else 24
    w = ctx.fresh("w", 1, B)
    ctx.assume(E.ne(w, req))
    x = ctx.fresh("x", 0, (1 << B) - 1)
    ctx.assume(E.lt(x, 1 << w))
    a, n = _mkaddr(ctx, name, cls, mx)
    f = F.ForwardFrame(w, x)
    st, r = call(a.add_to_frame, f)
    ctx.prove(st == "exc" and isinstance(r, IncompatibleFrame),
              "wrong-size frame not refused with IncompatibleFrame: %r" % (r,), key="size/refused:" + name)
    ctx.prove(E.and_(E.eq(f.__len__(), w), E.eq(f.as_integer, x)),
              "refused frame was modified", key="size/unchanged:" + name)
    # decode side: no address / instance from a frame of the wrong size
    if kind < len(GEAR) + len(DEVICE):
        st2, r2 = call(cls.from_frame, f)
        ctx.prove(st2 == "ok" and r2 is None, "address decoded from a frame of the wrong size",
                  key="size/decode:" + name)
    return "refused" if st == "exc" else "accepted"


def h_size_reserved(ctx, B):
    """The eleventh instance kind: what a reserved instance byte decodes to (ReservedInstance) must refuse a
    frame of the wrong size like every other kind, and write back the same byte into a 24-bit frame."""
    b = ctx.fresh("b", 0, 255)
    ctx.assume(E.or_(E.between(0x40, b, 0x5F), E.between(0xE0, b, 0xFB)))
    st, inst = call(A.instance_from_frame, F.ForwardFrame(24, b << 8))
    if st == "exc" or inst is None:
        ctx.fail("reserved instance byte did not decode: %r" % (inst,), key="size/reserved-decode")
        return "no-object"
    w = ctx.fresh("w", 1, B)
    ctx.assume(E.ne(w, 24))
    x = ctx.fresh("x", 0, (1 << B) - 1)
    ctx.assume(E.lt(x, 1 << w))
    f = F.ForwardFrame(w, x)
    st, r = call(inst.add_to_frame, f)
    ctx.prove(st == "exc" and isinstance(r, IncompatibleFrame),
              "wrong-size frame not refused with IncompatibleFrame: %r" % (r,), key="size/refused:" + type(inst).__name__)
    ctx.prove(E.and_(E.eq(f.__len__(), w), E.eq(f.as_integer, x)), "refused frame was modified",
              key="size/unchanged:" + type(inst).__name__)
    y = ctx.fresh("y", 0, 0xFFFFFF)
    g = F.ForwardFrame(24, y)
    st, r = call(inst.add_to_frame, g)
    ctx.prove(st == "ok" and E.eq(g.as_integer, (y & 0xFF00FF) | (b << 8)),
              "reserved instance did not write back exactly its byte", key="size/reserved-write")
    return type(inst).__name__


def h_eq(ctx, i, j, which):
    kinds = (GEAR + DEVICE) if which == "addr" else \
        ([(n, c, 31) for n, c, _ in INST] + [(n, c, None) for n, c, _ in UNINST]
         + [("ReservedInstance", A.ReservedInstance, 255)])
    n1, c1, m1 = kinds[i]
    n2, c2, m2 = kinds[j]
    a, na = _mkaddr(ctx, n1, c1, m1, "na")
    b, nb = _mkaddr(ctx, n2, c2, m2, "nb")
    same = (i == j) and (True if m1 is None else E.eq(na, nb))
    r = (a == b)
    n = (a != b)
    ctx.prove(r is True or r is False, "== returned %r" % (r,), key="eq/type:%s" % n1)
    ctx.prove(E.iff(r, same), "== disagrees with (same kind and same number)",
              key="eq/value:%s-%s" % (n1, n2))
    ctx.prove(E.iff(n, E.not_(same)), "!= disagrees with (same kind and same number)",
              key="eq/ne:%s-%s" % (n1, n2))
    return "%s" % r


def cases(tier):
    B = 32 if tier == "quick" else 64
    cs = []
    for k in range(4):
        cs.append(Case("write-gear-%s" % GEAR[k][0], h_write, {"kind": k, "device": False}))
        cs.append(Case("write-dev-%s" % DEVICE[k][0], h_write, {"kind": k, "device": True}))
    cs.append(Case("read16", h_read, {"bits": 16}))
    cs.append(Case("read24", h_read, {"bits": 24}))
    for w in (8, 17, 20, 25, 32):
        cs.append(Case("read%d" % w, h_read_other, {"bits": w}))
    for fb, b in ((20, 24), (12, 16), (24, 16), (16, 24), (24, 20), (16, 12), (17, 24), (9, 16), (32, 24)):
        cs.append(Case("read%d-after-%d" % (b, fb), h_read_after, {"first_bits": fb, "bits": b}))
    cs.append(Case("inst-read", h_inst_read, {}))
    for k in range(len(INST) + len(UNINST) + 1):
        cs.append(Case("inst-write-%d" % k, h_inst_write, {"kind": k}))
    for k in range(len(GEAR) + len(DEVICE) + len(INST) + len(UNINST)):
        cs.append(Case("size-%d" % k, h_size, {"kind": k, "B": B}, width=128))
    cs.append(Case("size-reserved", h_size_reserved, {"B": B}, width=128))
    for i in range(8):
        for j in range(8):
            cs.append(Case("eq-addr-%d-%d" % (i, j), h_eq, {"i": i, "j": j, "which": "addr"}))
    for i in range(11):
        for j in range(11):
            cs.append(Case("eq-inst-%d-%d" % (i, j), h_eq, {"i": i, "j": j, "which": "inst"}))
    return cs


def h_read_after(ctx, first_bits, bits):
    """History: a frame of another width is decoded first (all of its bits symbolic), then the frame under
    test.  What a byte meant in a frame of one size must not be remembered for a frame of another size."""
    x0 = ctx.fresh("x0", 0, (1 << first_bits) - 1)
    call(A.from_frame, F.ForwardFrame(first_bits, x0))
    call(A.instance_from_frame, F.ForwardFrame(first_bits, x0))
    if bits in (16, 24):
        return h_read(ctx, bits)
    return h_read_other(ctx, bits)


def h_read_other(ctx, bits):
    x = ctx.fresh("x", 0, (1 << bits) - 1)
    f = F.ForwardFrame(bits, x)
    st, a = call(A.from_frame, f)
    ctx.prove(st == "ok" and a is None, "address decoded from a %d-bit frame: %r" % (bits, a),
              key="read/other-width")
    st, i = call(A.instance_from_frame, f)
    ctx.prove(st == "ok" and i is None, "instance decoded from a %d-bit frame: %r" % (bits, i),
              key="iread/other-width")
    return "none"
