"""C16 - drivers pair each command with its own answer, typed by the command."""
import asyncio
import types

from symx import E, Case, vloop
from harness.common import call
from harness import rigs

import dali.frame as F
import dali.command as C
import dali.address as A
import dali.gear.general as gg
import dali.gear.led as led
import dali.device.general as dg
import dali.driver.hid as H
import dali.driver.serial as S
import dali.driver.atxled as ATX
import dali.driver.daliserver as DSM

META = {
    "level_text": "Bounded symbolic verification of the drivers' send(): for a set of command shapes (yes/no, "
                  "numeric and bitmap queries, non-query, send-twice, device type != 0, 24-bit) the real "
                  "driver runs on a virtual-time event loop against a gateway model whose report bytes "
                  "(type/status and value) are symbolic; z3 shows send returns None exactly for commands that "
                  "expect no answer and otherwise an instance of the command's own response type wrapping "
                  "nothing / the reported byte / a framing-error frame as the gateway's status table says; "
                  "with two commands in flight or queued (reports delivered in a symbolic order, stale and "
                  "duplicated reports injected) every caller gets the answer that carries its own sequence "
                  "number / arrived for its own command.",
    "level_note": "Trusted: gateway status tables written in the harness from the protocol documents quoted in "
                  "the drivers (Tridonic 0x71/0x72/0x77+status 3, hasseb 1/2/3, LUBA event type 2, SCI status "
                  "2); asyncio; z3/cvc5; symx semantics incl. the struct interpreter (each path re-run "
                  "concretely). Gateway discipline assumed: a DALI8 report carries its byte in the last frame "
                  "byte with the upper three zero.",
    "explanation": "symbolic execution of hid.send/_send_raw/_handle_read, serial send/send_dali_command/"
                   "data_received with symbolic gateway reports under a virtual clock",
    "bounds": ["hasseb report delayed 0.01/0.3/0.7/2.5 s with a queued second caller; ATX history with 0..2 foreign lines per command; daliserver replies in one segment or one each",
               "command shapes: 7 (enumerated), report type/status/value bytes symbolic",
               "daliserver client: every history of 2 (thorough 3) commands from {numeric query, yes/no query, "
               "non-query, send-twice} over a persistent or per-command connection, every transmission with its "
               "own symbolic status (0/1/255) and value",
               "<= 2 callers, one command each; delivery order of their reports symbolic",
               "one stale / duplicate report",
               "Tridonic: a send abandoned (cancelled) after its frame was written, the next send started at "
               "once, 0..2 late reports of the first delivered before the second's own",
               "daliserver per-command connections: a pushed bus-traffic frame may arrive in the same segment "
               "as the reply of the first two transmissions (stream socket: recv(n) returns at most n bytes)",
               "ATX hat: three commands through one driver object (send-twice command acknowledged once or twice, "
               "send-twice command, query with a symbolic answer)",
               "serial: three callers - one in flight, one queued and cancelled there, one issued before the first "
               "has finished"],
    "stubs": ["fake os / transport (harness environment)", "struct format interpreter in symbolic mode",
              "in symbolic mode every empty dict the driver object owns becomes a dict that tolerates symbolic keys"],
    "outside": ["3 or more concurrent callers", "a surplus transmit-echo report for the command in flight "
                "(the Tridonic firmware quirk described in hid.py: the driver then waits forever)", "ATX hat retry loop beyond one reply line",
                "gateway reports a real gateway cannot produce (DALI8 report with non-zero upper bytes)"],
    "assumptions": [],
}

SHAPES = [
    ("yesno", lambda: gg.QueryControlGearPresent(A.GearShort(5))),
    ("numeric", lambda: gg.QueryActualLevel(A.GearShort(5))),
    ("bitmap", lambda: gg.QueryStatus(A.GearBroadcast())),
    ("nonquery", lambda: gg.DAPC(A.GearShort(5), 100)),
    ("twice", lambda: gg.SetMaxLevel(A.GearGroup(3))),
    ("devtype", lambda: led.QueryFeatures(A.GearShort(5))),
    ("dev24", lambda: dg.QueryDeviceStatus(A.DeviceShort(7))),
    # a query whose answer type comes from a mixin (the five QUERY EXTENDED VERSION NUMBER classes)
    ("extversion", lambda: led.QueryExtendedVersionNumber(A.GearShort(5))),
]


def _check_typed(ctx, cmd, r, expect, v, tag):
    """expect in {'none','value','error'}: what the bus outcome was."""
    if cmd.response is None:
        ctx.prove(r is None, "command expects no answer but send returned %r" % (r,), key=tag + "/nonquery-not-none")
        return
    ok = type(r) is type(cmd).response
    ctx.prove(ok, "send returned %r, not an instance of %s" % (r, cmd.response.__name__), key=tag + "/type")
    if not ok:
        return
    raw = r.raw_value
    if expect == "none":
        ctx.prove(raw is None, "bus was silent but the response wraps %r" % (raw,), key=tag + "/silent")
    elif expect == "value":
        ctx.prove(raw is not None and not raw.error and bool(E.eq(raw.as_integer, v)),
                  "response does not wrap the reported byte", key=tag + "/value")
    else:
        ctx.prove(raw is not None and raw.error, "garbled answer not wrapped as a framing-error frame",
                  key=tag + "/error")


# ---------------------------------------------------------------------------------------------
# HID Tridonic

def _tridonic_gateway(loop, rig, d, answers):
    """answers: list (per SEND of a command that is not ENABLE DEVICE TYPE) of report lists to
    deliver after the echo(es); each element is a callable(seq) -> report bytes."""
    state = {"i": 0}

    def gateway(data):
        if data[0] != 0x12:
            return
        s = data[1]
        twice = bool(data[2] & 0x20)
        mode = data[3]
        echo = rigs.tridonic_report(0x12, 0x73 if mode == 3 else 0x76, list(data[4:8]), s)
        for _ in range(2 if twice else 1):
            loop.call_soon(rig.deliver, loop, d, echo)
        fr = list(data[4:8])
        is_edt = mode == 3 and fr[2] == 0xC1
        if is_edt:
            loop.call_soon(rig.deliver, loop, d, rigs.tridonic_report(0x12, 0x71, [0, 0, 0, 0], s))
            return
        i = state["i"]
        state["i"] += 1
        for mk in (answers[i] if i < len(answers) else []):
            loop.call_soon(rig.deliver, loop, d, mk(s))
    rig.os.on_write = gateway


def h_tridonic_single(ctx, shape):
    name, mk = SHAPES[shape]
    cmd = mk()
    with rigs.HidRig(ctx, 200) as rig:
        rtype = ctx.fresh("rtype", 0, 255)
        # a surplus transmit echo is a gateway quirk outside this property's bus outcomes
        ctx.assume(E.and_(E.ne(rtype, 0x73), E.ne(rtype, 0x76)))
        status = ctx.fresh("status", 0, 255)
        val = ctx.fresh("val", 0, 255)
        out = {}

        async def main(loop):
            d = await rigs.tridonic_connect(loop, rig)
            # the report under test: INFO reports carry the bus status in frame[3], DALI8 the value
            def report(s):
                last = val
                return rigs.tridonic_report(0x12, rtype, [0, 0, 0, E.ite(E.eq(rtype, 0x77), status, last)], s)
            _tridonic_gateway(loop, rig, d, [[report]])
            t = asyncio.ensure_future(d.send(cmd))
            await asyncio.sleep(1.0)
            out["done_after_report"] = t.done()
            if not t.done():
                # not an answer: the bus then stays silent
                seq = list(rig.os.writes[-1])[1]
                rig.deliver(loop, d, rigs.tridonic_report(0x12, 0x71, [0, 0, 0, 0], seq))
                await asyncio.sleep(1.0)
            out["done"] = t.done()
            if t.done():
                out["exc"] = t.exception()
                out["r"] = t.result() if t.exception() is None else None
            else:
                t.cancel()
            out["outstanding"] = rigs.held(d)["entries"]
            out["locked"] = d.transaction_lock.locked()
            d.disconnect()
            await vloop.settle(2)
        st, r = call(vloop.run, main)
        tag = "tridonic/" + name
        if st == "exc":
            ctx.fail("harness run raised %r" % (r,), key=tag + "/run-raised:" + type(r).__name__)
            return "raised"
        if not out.get("done"):
            ctx.fail("send never completed", key=tag + "/hang")
            return "hang"
        if out["exc"] is not None:
            ctx.fail("send raised %r" % (out["exc"],), key=tag + "/send-raised:" + type(out["exc"]).__name__)
            return "send-raised"
        # reference: which outcome does the symbolic report denote?
        if rtype == 0x71:
            expect = "none"
        elif rtype == 0x72:
            expect = "value"
        elif rtype == 0x77 and status == 3:
            expect = "error"
        elif rtype == 0x73 or rtype == 0x76:
            expect = "extra-echo"
        else:
            expect = "not-an-answer"
        if expect in ("not-an-answer", "extra-echo"):
            if cmd.response is not None and expect == "not-an-answer":
                ctx.prove(out["done_after_report"] is False, "a report that is no answer completed the send",
                          key=tag + "/completed-on-non-answer")
            _check_typed(ctx, cmd, out["r"], "none", None, tag)
        else:
            _check_typed(ctx, cmd, out["r"], expect, val, tag)
        ctx.prove(out["outstanding"] == 0 and not out["locked"], "slot or lock left taken after send",
                  key=tag + "/cleanup")
        return "%s:%s" % (name, expect)


def h_tridonic_pairing(ctx, mode):
    """Two queries; replies carry sequence numbers and arrive in a symbolic order."""
    c1 = gg.QueryActualLevel(A.GearShort(1))
    c2 = gg.QueryMaxLevel(A.GearShort(2))
    with rigs.HidRig(ctx, ctx.fresh("seq0", 1, 255)) as rig:
        v1, v2 = ctx.fresh("v1", 0, 255), ctx.fresh("v2", 0, 255)
        order = ctx.fresh_choice("order", 2)
        out = {}

        async def main(loop):
            d = await rigs.tridonic_connect(loop, rig)
            seqs = []

            def gateway(data):
                if data[0] != 0x12:
                    return
                s = data[1]
                seqs.append(s)
                if mode != "abandoned":
                    loop.call_soon(rig.deliver, loop, d, rigs.tridonic_report(0x12, 0x73, list(data[4:8]), s))
            rig.os.on_write = gateway
            if mode == "abandoned":
                # the first caller gives up (cancelled / its own timeout) after its frame was handed to the
                # interface but before the interface reported on it; the next caller sends at once; then the
                # interface reports on the first command (echo, answer) and afterwards on the second
                gone = ctx.fresh_choice("first_reports", 3)       # 0: none, 1: echo only... of the first, late
                t1 = asyncio.ensure_future(d.send(c1))
                await asyncio.sleep(0.005)
                if len(seqs) != 1:
                    out["err"] = "first command not written"
                    return
                t1.cancel()
                await vloop.settle(3)
                t2 = asyncio.ensure_future(d.send(c2))
                await asyncio.sleep(0.005)
                if len(seqs) != 2:
                    out["err"] = "second command not written after the first was abandoned (%d)" % len(seqs)
                    return
                late = [rigs.tridonic_report(0x12, 0x73, [0, 0, 0x03, 0xA0], seqs[0]),
                        rigs.tridonic_report(0x12, 0x72, [0, 0, 0, v1], seqs[0])][:gone]
                own = [rigs.tridonic_report(0x12, 0x73, [0, 0, 0x05, 0xA1], seqs[1]),
                       rigs.tridonic_report(0x12, 0x72, [0, 0, 0, v2], seqs[1])]
                for rep in late + own:
                    rig.deliver(loop, d, rep)
                    await vloop.settle(3)
                await asyncio.sleep(0.5)
                out["r1"] = None
                out["r2"] = t2.result() if t2.done() and not t2.exception() else repr(t2)
                out["outstanding"] = rigs.held(d)["entries"]
                d.disconnect()
                await vloop.settle(2)
                return
            if mode == "inflight":
                t1 = asyncio.ensure_future(d.send(c1, in_transaction=True))
                t2 = asyncio.ensure_future(d.send(c2, in_transaction=True))
                await asyncio.sleep(0.1)
                if len(seqs) != 2:
                    out["err"] = "expected both commands in flight, %d written" % len(seqs)
                    return
                reps = [rigs.tridonic_report(0x12, 0x72, [0, 0, 0, v1], seqs[0]),
                        rigs.tridonic_report(0x12, 0x72, [0, 0, 0, v2], seqs[1])]
                for i in ([0, 1] if order == 0 else [1, 0]):
                    rig.deliver(loop, d, reps[i])
                    await vloop.settle(3)
            else:
                # queued: the second caller waits for the lock; a duplicate of the first answer
                # (same sequence number) arrives late, before or after the second command's own
                t1 = asyncio.ensure_future(d.send(c1))
                t2 = asyncio.ensure_future(d.send(c2))
                await asyncio.sleep(0.1)
                rig.deliver(loop, d, rigs.tridonic_report(0x12, 0x72, [0, 0, 0, v1], seqs[0]))
                await asyncio.sleep(0.1)
                if len(seqs) != 2:
                    out["err"] = "second command not written after the first completed"
                    return
                dup = rigs.tridonic_report(0x12, 0x72, [0, 0, 0, v1], seqs[0])
                own = rigs.tridonic_report(0x12, 0x72, [0, 0, 0, v2], seqs[1])
                for rep in ([dup, own] if order == 0 else [own, dup]):
                    rig.deliver(loop, d, rep)
                    await vloop.settle(3)
            await asyncio.sleep(0.5)
            out["r1"] = t1.result() if t1.done() and not t1.exception() else repr(t1)
            out["r2"] = t2.result() if t2.done() and not t2.exception() else repr(t2)
            out["outstanding"] = rigs.held(d)["entries"]
            d.disconnect()
            await vloop.settle(2)
        st, r = call(vloop.run, main)
        tag = "tridonic/pairing-" + mode
        if st == "exc" or "err" in out:
            ctx.fail("run failed: %r" % (out.get("err", r),), key=tag + "/run")
            return "failed"
        for who, cmd, res, v in (("first", c1, out["r1"], v1), ("second", c2, out["r2"], v2)):
            if mode == "abandoned" and who == "first":
                continue
            ok = type(res) is type(cmd).response and res.raw_value is not None
            ctx.prove(ok and E.eq(res.raw_value.as_integer, v),
                      "%s caller got %r instead of its own answer" % (who, res), key=tag + "/" + who)
        ctx.prove(out["outstanding"] == 0, "in-flight slots left", key=tag + "/slots")
        return "order%d" % order


# ---------------------------------------------------------------------------------------------
# HID hasseb

def h_hasseb(ctx, shape, stale):
    name, mk = SHAPES[shape]
    cmd = mk()
    with rigs.HidRig(ctx, 1) as rig:
        status = ctx.fresh("status", 1, 255)          # 0 = "no data available" is never delivered
        val = ctx.fresh("val", 0, 255)
        out = {}

        async def main(loop):
            d = H.hasseb("/dev/hasseb")
            d.connect()
            await vloop.settle(2)
            if stale:
                # an answer left over from an earlier command, delivered before this send
                rig.deliver(loop, d, bytes([2, 0x5A]))
                await vloop.settle(2)
            n = {"w": 0}

            def gateway(data):
                n["w"] += 1
                if n["w"] == (2 if cmd.sendtwice else 1) + (1 if cmd.devicetype else 0) \
                        or (cmd.devicetype and n["w"] == 1 and False):
                    loop.call_later(0.01, rig.deliver, loop, d, rigs.mkbytes([status, val]))
            rig.os.on_write = gateway
            t = asyncio.ensure_future(d.send(cmd))
            await asyncio.sleep(1.0)
            out["done"] = t.done()
            if t.done():
                out["exc"] = t.exception()
                out["r"] = t.result() if t.exception() is None else None
            else:
                t.cancel()
            out["locked"] = d.transaction_lock.locked()
            d.disconnect()
            await vloop.settle(2)
        st, r = call(vloop.run, main)
        tag = "hasseb/" + name
        if st == "exc":
            ctx.fail("harness run raised %r" % (r,), key=tag + "/run-raised:" + type(r).__name__)
            return "raised"
        if status == 1:
            expect = "none"
        elif status == 2:
            expect = "value"
        elif status == 3:
            expect = "error"
        else:
            return "unknown-status"
        if not out.get("done"):
            ctx.fail("send never completed", key=tag + "/hang")
            return "hang"
        if out["exc"] is not None:
            ctx.fail("send raised %r" % (out["exc"],), key=tag + "/send-raised:" + type(out["exc"]).__name__)
            return "send-raised"
        _check_typed(ctx, cmd, out["r"], expect, val, tag + ("/stale" if stale else ""))
        ctx.prove(not out["locked"], "lock left taken", key=tag + "/lock")
        return "%s:%s" % (name, expect)


def h_hasseb_delayed(ctx):
    """Two queries queued on a hasseb gateway whose report for the first one takes its time (a busy bus): each
    caller still gets the answer to its own command, however late."""
    delays = [0.01, 0.3, 0.7, 2.5]
    d1 = delays[ctx.fresh_choice("first_report_after", len(delays))]
    v1, v2 = ctx.fresh("val1", 0, 255), ctx.fresh("val2", 0, 255)
    c1, c2 = gg.QueryActualLevel(A.GearShort(1)), gg.QueryActualLevel(A.GearShort(2))
    with rigs.HidRig(ctx, 1) as rig:
        out = {}

        async def main(loop):
            d = H.hasseb("/dev/hasseb")
            d.connect()
            await vloop.settle(2)
            n = {"w": 0}

            def gateway(data):
                n["w"] += 1
                if n["w"] == 1:
                    loop.call_later(d1, rig.deliver, loop, d, rigs.mkbytes([2, v1]))
                elif n["w"] == 2:
                    loop.call_later(0.01, rig.deliver, loop, d, rigs.mkbytes([2, v2]))
            rig.os.on_write = gateway
            t1 = asyncio.ensure_future(d.send(c1))
            await vloop.settle(1)
            t2 = asyncio.ensure_future(d.send(c2))
            await asyncio.sleep(6.0)
            for k, t in (("1", t1), ("2", t2)):
                out["done" + k] = t.done()
                if t.done():
                    out["exc" + k] = t.exception()
                    out["r" + k] = t.result() if t.exception() is None else None
                else:
                    t.cancel()
            out["writes"] = n["w"]
            d.disconnect()
            await vloop.settle(2)
        st, r = call(vloop.run, main)
        tag = "hasseb/delayed"
        if st == "exc":
            ctx.fail("harness run raised %r" % (r,), key=tag + "/run-raised:" + type(r).__name__)
            return "raised"
        for k, cmd, v in (("1", c1, v1), ("2", c2, v2)):
            if not out.get("done" + k):
                ctx.fail("send %s never completed" % k, key=tag + "/hang" + k)
                return "hang"
            if out["exc" + k] is not None:
                ctx.fail("send %s raised %r" % (k, out["exc" + k]), key=tag + "/send-raised" + k)
                return "send-raised"
            _check_typed(ctx, cmd, out["r" + k], "value", v, tag + "/query" + k)
        ctx.prove(out["writes"] == 2, "%d frames handed to the gateway for two commands" % out["writes"],
                  key=tag + "/writes")
        return "delay=%s" % d1


# ---------------------------------------------------------------------------------------------
# LUBA / SCI

def h_serial(ctx, which, shape, scenario):
    name, mk = SHAPES[shape]
    cmd = mk()
    val = ctx.fresh("val", 0, 255)
    answered = ctx.fresh_bool("answered")
    out = {}

    async def main(loop):
        d, p, t = (rigs.luba_driver if which == "luba" else rigs.sci_driver)(loop)
        if scenario in ("stale-answer", "stale-answers-2"):
            # an answer to an earlier command that arrived after its timeout (or, on a bus with
            # other masters, backward frames answering somebody else's queries)
            for k in range(2 if scenario == "stale-answers-2" else 1):
                p.data_received(rigs.luba_event_rx([0x5A + k]) if which == "luba"
                                else rigs.sci_frame(0x12, 0, 0, 0x5A + k))
        if scenario == "stale-info" and which == "sci":
            # e.g. the "DALI NO" status the gateway sends after an unanswered query
            p.data_received(rigs.sci_frame(0x11, 0, 0, 0))
        nwr = {"n": 0}

        def gateway(data):
            nwr["n"] += 1
            if which == "luba":
                nb = data[4] // 8
                fb = data[6:6 + nb]
                is_edt = nb == 2 and fb[0] == 0xC1
                twice = bool(data[5] & 0x80)
                last = 0.0
                for k in range(2 if twice else 1):
                    last = 0.02 * (k + 1)
                    loop.call_later(last, p.data_received, rigs.luba_event_tx(nwr["n"], fb))
                if answered and not is_edt and cmd.response is not None:
                    # the answer follows the (last) forward frame within the DALI answer window
                    loop.call_later(last + 0.012, p.data_received, rigs.luba_event_rx([val]))
            else:
                is_edt = (data[0] & 0x0F) == 3 and data[1] == 0xC1
                loop.call_later(0.05, p.data_received, rigs.sci_frame(0x10, 0, 0, 0))
                if answered and not is_edt and cmd.response is not None:
                    loop.call_later(0.062, p.data_received, rigs.sci_frame(0x12, 0, 0, val))
        t.on_write = gateway
        tk = asyncio.ensure_future(d.send(cmd))
        await asyncio.sleep(3.0)
        out["done"] = tk.done()
        if tk.done():
            out["exc"] = tk.exception()
            out["r"] = tk.result() if tk.exception() is None else None
        else:
            tk.cancel()
        out["locked"] = d.transaction_lock.locked()
    st, r = call(vloop.run, main)
    tag = "%s/%s/%s" % (which, name, scenario)
    if st == "exc":
        ctx.fail("harness run raised %r" % (r,), key=tag + "/run-raised:" + type(r).__name__)
        return "raised"
    if not out.get("done"):
        ctx.fail("send never completed", key=tag + "/hang")
        return "hang"
    if out["exc"] is not None:
        ctx.fail("send raised %r" % (out["exc"],), key=tag + "/send-raised:" + type(out["exc"]).__name__)
        return "send-raised"
    _check_typed(ctx, cmd, out["r"], "value" if (answered and cmd.response is not None) else "none", val, tag)
    ctx.prove(not out["locked"], "lock left taken", key=tag + "/lock")
    return "%s:%s" % (name, "answered" if answered else "silent")


# ---------------------------------------------------------------------------------------------
# ATX LED hat (ASCII protocol; the answer byte is enumerated through the solver)

class _FakeConn:
    def __init__(self, lines):
        self.lines = list(lines)
        self.written = []

    def write(self, data):
        self.written.append(data)

    def read_until(self, term):
        return self.lines.pop(0) if self.lines else b""


def _atx_driver():
    """The driver through its own constructor (the serial port does not exist: the constructor logs that and
    leaves conn = None; the harness supplies the connection)."""
    quiet = types.SimpleNamespace(debug=lambda *a, **k: None, info=lambda *a, **k: None, error=lambda *a, **k: None,
                                  exception=lambda *a, **k: None, warning=lambda *a, **k: None)
    return ATX.SyncDaliHatDriver(port="/dev/verif-no-such-port", LOG=quiet)


def h_serial_queue_cancel(ctx, which):
    """Three callers on a serial driver: A's query is in flight (confirmation after 10 ms, answer 12 ms later), B is queued behind it
    and is cancelled there, C is issued before A has finished.  A and C must each get their own answer -
    cancelling a caller that only waits must not let the next one in early."""
    va, vc = ctx.fresh("va", 0, 255), ctx.fresh("vc", 0, 255)
    ca = gg.QueryActualLevel(A.GearShort(1))
    cb = gg.QueryMaxLevel(A.GearShort(2))
    cc = gg.QueryMinLevel(A.GearShort(3))
    out = {}

    async def main(loop):
        d, p, t = (rigs.luba_driver if which == "luba" else rigs.sci_driver)(loop)
        nwr = {"n": 0}

        def gateway(data):
            nwr["n"] += 1
            if which == "luba":
                nb = data[4] // 8
                fb = list(data[6:6 + nb])
                first = fb[0] == 0x03
                loop.call_later(0.01, p.data_received, rigs.luba_event_tx(nwr["n"], fb))
                loop.call_later(0.022, p.data_received, rigs.luba_event_rx([va if first else vc]))
            else:
                first = data[1] == 0x03
                loop.call_later(0.01, p.data_received, rigs.sci_frame(0x10, 0, 0, 0))
                loop.call_later(0.022, p.data_received,
                                rigs.sci_frame(0x12, 0, 0, va if first else vc))
        t.on_write = gateway
        ta = asyncio.ensure_future(d.send(ca))
        await asyncio.sleep(0.002)
        tb = asyncio.ensure_future(d.send(cb))
        await asyncio.sleep(0.002)
        tb.cancel()
        await asyncio.sleep(0.002)
        tc = asyncio.ensure_future(d.send(cc))
        await asyncio.sleep(3.0)
        out["a"], out["c"] = ta, tc
        out["wrote"] = nwr["n"]
        out["locked"] = d.transaction_lock.locked()
        for x in (ta, tc):
            if not x.done():
                x.cancel()
    st, r = call(vloop.run, main)
    tag = "%s/queue-cancel" % which
    if st == "exc":
        ctx.fail("harness run raised %r" % (r,), key=tag + "/run-raised:" + type(r).__name__)
        return "raised"
    for who, tk, cmd, v in (("A", out["a"], ca, va), ("C", out["c"], cc, vc)):
        if not tk.done() or tk.cancelled():
            ctx.fail("caller %s never completed" % who, key=tag + "/hang:" + who)
            continue
        if tk.exception() is not None:
            ctx.fail("caller %s failed with %r" % (who, tk.exception()), key=tag + "/raised:" + who)
            continue
        res = tk.result()
        ok = type(res) is type(cmd).response and res.raw_value is not None and not res.raw_value.error
        ctx.prove(ok and E.eq(res.raw_value.as_integer, v), "caller %s got %r instead of its own answer" % (who, res),
                  key=tag + "/answer:" + who)
    ctx.prove(out["wrote"] == 2, "%d frames written (the cancelled caller's must not go out)" % out["wrote"],
              key=tag + "/writes")
    ctx.prove(not out["locked"], "lock left taken", key=tag + "/lock")
    return "ok"


def h_atx_history(ctx):
    """Three commands through one driver object.  The first is a send-twice command that gets only one of its
    two acknowledgement lines (then silence); the second a send-twice command acknowledged twice; the third a
    query answered with a symbolic value: it must be returned that value - nothing of an earlier exchange may
    be carried over."""
    short = ctx.fresh_bool("first_ack_missing")
    v = [0x00, 0x2A, 0xFF, 0x4E, 0xA0, 0x0D][ctx.fresh_choice("val_i", 6)]     # (the line is text: concrete values)
    drv = _atx_driver()
    c1 = gg.SetMaxLevel(A.GearShort(1))
    c2 = gg.SetMinLevel(A.GearShort(2))
    q = gg.QueryActualLevel(A.GearShort(3))
    tag = "atx/history"
    for k, (cmd, lines) in enumerate(((c1, ["N\n"] * (1 if short else 2)), (c2, ["N\n", "N\n"]),
                                      (q, ["J%02X\n" % v]))):
        # another master is busy on the bus: up to two of its frames are reported before our own lines
        # (the driver tolerates four per command)
        foreign = ["HFE80\n", "H0390\n"][:ctx.fresh_choice("foreign_lines_%d" % k, 3)]
        drv.conn = _FakeConn([l.encode("ascii") for l in foreign + lines])
        st, r = call(drv.send, cmd)
        if st == "exc":
            ctx.fail("send %d raised %r" % (k, r), key=tag + "/raised:" + type(r).__name__)
            return "raised"
        if k == 1:
            ctx.prove(not drv.conn.lines, "an acknowledgement line of the second command was left unread",
                      key=tag + "/unread")
    ok = type(r) is type(q).response and r.raw_value is not None and not r.raw_value.error
    ctx.prove(ok and r.raw_value.as_integer == v, "the query after two configuration commands returned %r, the gear "
              "answered %d" % (r, v), key=tag + "/answer")
    return "short" if short else "full"


def h_atx(ctx, shape):
    name, mk = SHAPES[shape]
    cmd = mk()
    answered = ctx.fresh_bool("answered")
    v = ctx.fresh("val", 0, 255)
    v = v if isinstance(v, int) else v.concretize()
    import threading
    drv = _atx_driver()
    line = ("J%02X\n" % v) if answered else "N\n"
    drv.conn = _FakeConn([line.encode("ascii")] * (2 if cmd.sendtwice else 1))
    st, r = call(drv.send, cmd)
    tag = "atx/" + name
    if st == "exc":
        ctx.fail("send raised %r" % (r,), key=tag + "/raised:" + type(r).__name__)
        return "raised"
    if cmd.response is None:
        if not answered:
            ctx.prove(r is None, "non-query returned %r" % (r,), key=tag + "/nonquery")
        return "nonquery"
    _check_typed(ctx, cmd, r, "value" if answered else "none", v, tag)
    return "%s:%s" % (name, "answered" if answered else "silent")


# ---------------------------------------------------------------------------------------------
# daliserver client: a history of commands over one connection (or one connection each)

class _DaliServerModel:
    """daliserver: every 4-byte request is put on the bus once and answered with one 4-byte status
    message (version 2, status 0 none / 1 answer / 255 garbled, value, pad), in order, per connection."""

    def __init__(self, outcomes):
        self.outcomes = outcomes
        self.transmissions = []          # (frame bytes, connection index)
        self.conns = []
        self.pushed = None
        self.pushed_val = 0
        self.coalesce = True       # replies to requests written together arrive in one segment (or one each)

    def connect(self, target):
        c = _DaliServerConn(self, len(self.conns))
        self.conns.append(c)
        return c


class _DaliServerConn:
    def __init__(self, model, idx):
        self.model, self.idx, self.queue, self.closed, self.extra = model, idx, [], False, False
        self.later = []

    def send(self, data):
        # (a stream: several 4-byte requests written at once are several requests)
        data = bytes(data)
        for off in range(0, len(data), 4):
            self._request(data[off:off + 4])
        return len(data)

    sendall = send

    def _request(self, data):
        n = len(self.model.transmissions)
        self.model.transmissions.append((data, self.idx))
        status, val = self.model.outcomes[n]
        if self.queue and not self.model.coalesce:
            self.later.append([2, status, val, 0])      # a separate segment: arrives once the first was read
        else:
            self.queue.extend([2, status, val, 0])
        if self.model.pushed and self.model.pushed[n]:
            # daliserver also pushes what it sees on the bus to every connected client: such a frame arrives
            # in the same segment as the reply (only modelled for per-command connections, where it has to
            # die with the socket)
            self.queue.extend([2, 1, self.model.pushed_val, 0])
            self.extra = True

    def recv(self, n):
        # stream socket: at most n bytes of what has arrived
        if not self.queue:
            raise rigs._env(RuntimeError("recv() with nothing to read: the client would block forever"))
        out, self.queue = self.queue[:n], self.queue[n:]
        if not self.queue and self.later:
            self.queue = self.later.pop(0)
        return rigs.mkbytes(out)

    def close(self):
        self.closed = True


DS_SHAPES = [1, 0, 3, 4]          # numeric, yes/no, non-query, send-twice


def h_daliserver_history(ctx, n):
    persistent = ctx.fresh_bool("persistent")
    cmds = [SHAPES[DS_SHAPES[ctx.fresh_choice("shape%d" % k, len(DS_SHAPES))]][1]() for k in range(n)]
    outcomes = []
    for t in range(2 * n):
        code = ctx.fresh_choice("status%d" % t, 3)
        outcomes.append(([0, 1, 255][code], ctx.fresh("val%d" % t, 0, 255)))
    model = _DaliServerModel(outcomes)
    model.coalesce = ctx.fresh_bool("replies_in_one_segment")
    if not persistent:
        model.pushed = [ctx.fresh_bool("pushed%d" % t) if t < 2 else False for t in range(2 * n)]
        model.pushed_val = ctx.fresh("pushed_val", 0, 255)
    saved = DSM.socket
    DSM.socket = types.SimpleNamespace(create_connection=model.connect)
    try:
        drv = DSM.DaliServer(multiple_frames_per_connection=persistent)
        drv.__enter__()
        for k, cmd in enumerate(cmds):
            tag = "daliserver/cmd%d" % k
            st, r = call(drv.send, cmd)
            if st == "exc":
                ctx.fail("send raised %r" % (r,), key=tag + "/raised:" + type(r).__name__)
                return "raised"
            last = len(model.transmissions) - 1
            own = [t for t in model.transmissions[-(2 if cmd.sendtwice else 1):]]
            ctx.prove(len(model.transmissions) >= (2 if cmd.sendtwice else 1) and
                      all(bytes(d[2:]) == cmd.frame.pack for d, _ in own),
                      "the command was not transmitted once (twice for send-twice)", key=tag + "/transmissions")
            status, val = outcomes[last]
            _check_typed(ctx, cmd, r, {0: "none", 1: "value", 255: "error"}[status], val, tag)
            ctx.prove(all(not (c.queue or c.later) or c.extra for c in model.conns),
                      "a status message is left unread on the connection (the next command would take it "
                      "for its own)", key=tag + "/unread-status")
        drv.__exit__(None, None, None)
    finally:
        DSM.socket = saved
    if not persistent:
        ctx.prove(all(c.closed for c in model.conns), "a per-command connection was left open",
                  key="daliserver/conn-open")
    return "%s:%s" % ("persistent" if persistent else "per-command", ",".join(type(c).__name__ for c in cmds))


def cases(tier):
    cs = [Case("daliserver-history", h_daliserver_history, {"n": 2 if tier == "quick" else 3})]
    for i, (name, _) in enumerate(SHAPES):
        cs.append(Case("tridonic-%s" % name, h_tridonic_single, {"shape": i}, install=rigs.install_tridonic_structs))
        if name != "dev24":
            cs.append(Case("hasseb-%s" % name, h_hasseb, {"shape": i, "stale": False},
                           install=rigs.install_tridonic_structs))
            cs.append(Case("atx-%s" % name, h_atx, {"shape": i}))
        for which in ("luba", "sci"):
            cs.append(Case("%s-%s" % (which, name), h_serial, {"which": which, "shape": i, "scenario": "plain"}))
    for i in (0, 1):
        cs.append(Case("hasseb-stale-%s" % SHAPES[i][0], h_hasseb, {"shape": i, "stale": True},
                       install=rigs.install_tridonic_structs))
        for which in ("luba", "sci"):
            cs.append(Case("%s-stale-answer-%s" % (which, SHAPES[i][0]), h_serial,
                           {"which": which, "shape": i, "scenario": "stale-answer"}))
        for which in ("luba", "sci"):
            cs.append(Case("%s-stale-answers-2-%s" % (which, SHAPES[i][0]), h_serial,
                           {"which": which, "shape": i, "scenario": "stale-answers-2"}))
        cs.append(Case("sci-stale-info-%s" % SHAPES[i][0], h_serial,
                       {"which": "sci", "shape": i, "scenario": "stale-info"}))
    cs.append(Case("atx-history", h_atx_history, {}))
    cs.append(Case("hasseb-delayed-report", h_hasseb_delayed, {}, install=rigs.install_tridonic_structs))
    for which in ("luba", "sci"):
        cs.append(Case("%s-queue-cancel" % which, h_serial_queue_cancel, {"which": which}))
    for mode in ("inflight", "queued", "abandoned"):
        cs.append(Case("tridonic-pairing-%s" % mode, h_tridonic_pairing, {"mode": mode},
                       install=rigs.install_tridonic_structs))
    return cs
