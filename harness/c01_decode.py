"""C01 - every forward frame decodes, and the decoded command re-encodes to it."""
from symx import E, Case
from harness.common import call, newdict, registry_digest, event_map

import dali.frame as F
import dali.command as C
import dali.address as A
import dali.gear  # noqa  (registers all gear commands)
import dali.device  # noqa
import dali.gear.general as gg
import dali.device.general as dg
import dali.device.helpers as helpers
import dali.device.pushbutton, dali.device.occupancy, dali.device.light  # noqa
import dali.gear.colour, dali.gear.converter, dali.gear.emergency  # noqa
import dali.gear.incandescent, dali.gear.led  # noqa

META = {
    "level_text": "Bounded symbolic verification of the whole decoder: the real Command.from_frame is "
                  "executed on a fully symbolic 16-bit frame x symbolic device type 0..255, on a fully "
                  "symbolic 24-bit frame (no map), on symbolic device/instance event frames under a map "
                  "with a symbolic entry (any address/instance/type 0..255, or no entry), and on frames of "
                  "every other width 1..64; on every path z3 shows the result re-encodes to the input bits, "
                  "and class-level state is compared before/after every path (purity).",
    "level_note": "Trusted: z3/cvc5, symx integer semantics (cross-validated by a concrete re-run of every "
                  "path on un-instrumented code), SymDict registry lookup (forks per distinct class). "
                  "Bounds: widths <= 64, device types 0..255, one frame per path with before/after "
                  "state digests for order-independence.",
    "explanation": "symbolic execution of dali.command.from_frame and everything it calls on symbolic "
                   "frames; every path = an equivalence class of frames decoded the same way; obligations "
                   "(bit-identical frame, same width, str() works, decode twice agrees, no class-level "
                   "state written) are unsat queries under the path condition",
    "bounds": ["real mapper case: events from a short address in both the device/instance and the device scheme",
               "all 2^16 16-bit frames x device types 0..255", "all 2^24 24-bit frames, no map",
               "all device/instance-scheme event frames x a map with one symbolic entry "
               "(short address 0..63, instance 0..31, type 0..255) or none",
               "widths 1..64 other than 16/24 with fully symbolic data",
               "thorough: device types 0..65535; maps with two symbolic entries; all 2^24 frames under a map",
               "before every decode a 24-bit frame and an ENABLE DEVICE TYPE frame with a symbolic type are "
               "decoded; the decode under test is compared with a second decode made right after it",
               "the untouched DeviceInstanceTypeMapper with 0..3 entries at concrete keys, frame fields limited to "
               "known / unknown devices and instances", "a 16-bit frame (12 representatives) decoded before the "
               "24-bit frame of the same number"],
    "stubs": ["isinstance/int/bytes shims", "SymDict around the opcode/instance-type registries",
              "SymKeyDict as DeviceInstanceTypeMapper._mapping in symbolic mode (plain dict in the "
              "concrete cross-validation run)", "text tokens for formatted symbolic ints"],
    "outside": ["widths > 64", "device types >= 256 or non-int", "maps whose get_type raises",
                "instance types outside 0..255 in a map"],
    "assumptions": ["a decode that leaves every registry/class attribute unchanged (digest compared "
                    "after every path) cannot influence later decodes: order independence follows"],
}

_DIGEST = {}


def _check_decode(ctx, f, x, width, dt, dmap, tag):
    # history: an ENABLE DEVICE TYPE frame announcing any type and a 24-bit frame are decoded just before; the
    # decode under test is then compared with a second decode of the same frame made right after it - what
    # was decoded before must not matter
    call(C.from_frame, F.ForwardFrame(24, 0xFFFE30))
    call(C.from_frame, F.ForwardFrame(16, 0xC100 | ctx.fresh("prime_dt", 0, 255)))
    base = registry_digest()
    st, c = call(C.from_frame, f, devicetype=dt, dev_inst_map=dmap)
    if st == "exc":
        ctx.fail("decode raised %r" % (c,), key=tag + "/raised:" + type(c).__name__)
        return "EXC:" + type(c).__name__
    if not isinstance(c, C.Command):
        ctx.fail("decode returned %r" % (c,), key=tag + "/not-a-command")
        return "NOTCMD"
    name = type(c).__name__
    ctx.prove(E.eq(c.frame.__len__(), width), "decoded frame has another width",
              key=tag + "/width:" + name)
    ctx.prove(E.eq(c.frame.as_integer, x), "decoded command does not re-encode to the input frame",
              key=tag + "/bits:" + name)
    st, s = call(str, c)
    if st == "exc":
        ctx.fail("str() of decoded command raised %r" % (s,), key=tag + "/str:" + name)
        s = ""
    ctx.prove(isinstance(s, str), "str() did not return text", key=tag + "/strtype:" + name)
    # decode again: same class, same text, same bits
    st2, c2 = call(C.from_frame, f, devicetype=dt, dev_inst_map=dmap)
    if st2 == "exc" or type(c2) is not type(c):
        ctx.fail("second decode differs: %r" % (c2,), key=tag + "/second:" + name)
    else:
        ctx.prove(E.eq(c2.frame.as_integer, x), "second decode re-encodes differently",
                  key=tag + "/second-bits:" + name)
        st3, s2 = call(str, c2)
        ctx.prove(st3 == "ok" and ctx.text_equal(s, s2), "second decode renders differently",
                  key=tag + "/second-text:" + name)
    ctx.prove(E.eq(f.as_integer, x), "decode modified its input frame", key=tag + "/input-mutated")
    ctx.prove(registry_digest() == base, "decode wrote class-level state (registries/class attributes)",
              key=tag + "/impure:" + name)
    ctx.observe("text", s)
    ctx.observe("frame", c.frame.as_integer)
    return name


def h16(ctx, lo=0, hi=0xFFFF, dtmax=255):
    x = ctx.fresh("x", lo, hi)
    dt = ctx.fresh("dt", 0, dtmax)
    return _check_decode(ctx, F.ForwardFrame(16, x), x, 16, dt, None, "h16")


def h24(ctx):
    x = ctx.fresh("x", 0, 0xFFFFFF)
    dt = ctx.fresh("dt", 0, 255)
    return _check_decode(ctx, F.ForwardFrame(24, x), x, 24, dt, None, "h24")


def h24map(ctx, entries=1, anyframe=False):
    x = ctx.fresh("x", 0, 0xFFFFFF)
    if not anyframe:
        # event space, device/instance scheme: bit 16 = 0, bit 23 = 0, bit 15 = 1
        ctx.assume(E.eq(x & 0x818000, 0x008000))
    m = event_map(ctx)
    for e in range(1, entries):
        # further entries, filled through the real add_type with symbolic keys and types
        m.add_type(short_address=ctx.fresh("ka%d" % e, 0, 63), instance_number=ctx.fresh("ki%d" % e, 0, 31),
                   instance_type=ctx.fresh("t%d" % e, 0, 255))
    if ctx.fresh_bool("has_entry"):
        ka = ctx.fresh("ka", 0, 63)
        ki = ctx.fresh("ki", 0, 31)
        t = ctx.fresh("t", 0, 255)
        form = ctx.fresh_choice("form", 2)
        if form == 0:
            m.add_type(short_address=ka, instance_number=ki, instance_type=t)
        else:
            m.add_type(short_address=A.DeviceShort(ka), instance_number=A.InstanceNumber(ki),
                       instance_type=t)
    return _check_decode(ctx, F.ForwardFrame(24, x), x, 24, 0, m, "h24map")


def h24map_real(ctx):
    """The library's own DeviceInstanceTypeMapper, untouched (nothing of it replaced), filled through add_type
    with keys from a small concrete set; the frame is symbolic but its device/instance fields are limited to
    that set plus values the map does not know: a device the map knows with an instance it does not, an
    unknown device, a known pair - decoding never fails whatever the map contains."""
    x = ctx.fresh("x", 0, 0xFFFFFF)
    # events from a short address: the device/instance scheme (bit 15 set, the map is consulted) and the device
    # scheme (bit 15 clear: the same five bits are the instance type, the map has no say)
    ctx.assume(E.eq(x & 0x810000, 0))
    sa, inst = (x >> 17) & 0x3F, (x >> 10) & 0x1F
    ctx.assume(E.or_(E.eq(sa, 5), E.eq(sa, 37), E.eq(sa, 63)))
    ctx.assume(E.or_(E.eq(inst, 0), E.eq(inst, 2), E.eq(inst, 31)))
    m = helpers.DeviceInstanceTypeMapper()
    filled = ctx.fresh_choice("filled", 4)
    t = ctx.fresh("t", 0, 255)
    if filled >= 1:
        m.add_type(short_address=5, instance_number=0, instance_type=t)
    if filled >= 2:
        m.add_type(short_address=A.DeviceShort(5), instance_number=A.InstanceNumber(31), instance_type=3)
    if filled >= 3:
        m.add_type(short_address=63, instance_number=2, instance_type=1)
    return _check_decode(ctx, F.ForwardFrame(24, x), x, 24, 0, m, "h24map-real")


def h24_after_16(ctx):
    """A 16-bit frame is decoded first, then the 24-bit frame whose top byte is zero and whose lower two bytes
    are the same bits (an event from the control device at short address 0): frames of different widths that
    agree as numbers are different frames."""
    reps = (0x8000, 0xFE80, 0x01A0, 0xA300, 0xC108, 0x0100, 0x0390, 0x7F2A, 0xB1FF, 0x05E2, 0xFFFF, 0x0000)
    y = reps[ctx.fresh_choice("y", len(reps))]      # (concrete representatives: a cache keyed by the number would
    dt = ctx.fresh("dt0", 0, 8)                     #  hash a symbolic one)
    call(C.from_frame, F.ForwardFrame(16, y), devicetype=dt)
    x = y                                   # 24 bits: 00 : y
    return _check_decode(ctx, F.ForwardFrame(24, x), x, 24, dt, None, "h24-after-16")


def hlen(ctx, B):
    w = ctx.fresh("w", 1, B)
    ctx.assume(E.and_(E.ne(w, 16), E.ne(w, 24)))
    x = ctx.fresh("x", 0, (1 << B) - 1)
    ctx.assume(E.lt(x, 1 << w))
    dt = ctx.fresh("dt", 0, 255)
    r = _check_decode(ctx, F.ForwardFrame(w, x), x, w, dt, None, "hlen")
    return r


def cases(tier):
    cs = [
        Case("h16", h16, {}),
        Case("h24", h24, {}),
        Case("h24map", h24map, {}),
        Case("h24map-real", h24map_real, {}),
        Case("h24-after-16", h24_after_16, {}),
        Case("hlen", hlen, {"B": 64}, width=128),
    ]
    if tier == "thorough":
        cs += [
            Case("h16-dt16", h16, {"dtmax": 0xFFFF}),           # claimed device types beyond one byte
            Case("h24map-2", h24map, {"entries": 2}),           # two map entries (keys may coincide)
            Case("h24map-any", h24map, {"anyframe": True}),     # a map must not disturb any other 24-bit frame
        ]
    return cs
