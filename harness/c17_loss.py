"""C17 - gateway loss or silence fails sends promptly and recovery is clean."""
import asyncio

from symx import E, Case, vloop
from harness.common import call
from harness import rigs

import dali.frame as F
import dali.command as C
import dali.address as A
import dali.gear.general as gg
import dali.driver.hid as H
import dali.driver.serial as S
from dali.exceptions import CommunicationError

META = {
    "level_text": "Bounded symbolic exploration of fault schedules on the real hid.tridonic / hid.hasseb drivers "
                  "(fake os, virtual clock) and the LUBA / SCI drivers (fake transport): the loss point (idle, "
                  "write error, after the write, between echo and answer, during the version/serial "
                  "handshake, again right after reconnecting), its kind (EOF, read error, write error), how "
                  "many reconnect attempts fail, the reconnect limit (None/0/1/3), exceptions on/off, a second "
                  "queued caller and the cancellation point of a cancelled send are solver-chosen variables; "
                  "per path: every send is done (virtual time advances past every timer: nothing may still be "
                  "pending), in-flight sends raised CommunicationError or completed with their own answer "
                  "after the handshake was repeated, no lock / semaphore / in-flight slot is left taken, "
                  "status callbacks are disconnected, retries at multiples of the interval up to the limit, "
                  "then failed. Slot leak after cancellation is checked as an inductive step from an arbitrary "
                  "sequence counter. Serial gateways silent at confirmation or answer time fail / report no "
                  "answer within the documented timeout with the lock released.",
    "level_note": "Trusted: asyncio, the gateway models in the harness (Tridonic report protocol, hasseb two-byte "
                  "reports, LUBA/SCI confirmations), z3/cvc5, symx (each path re-run concretely).",
    "explanation": "real driver coroutines under a virtual clock with the fault schedule as symbolic choice variables",
    "bounds": ["LUBA gateway refusing every frame (error codes 1, 2, 0x80); 1..3 rounds of cancel-after-write + adapter loss (with/without echo, EOF/OSError)",
               "<= 2 callers", "<= 2 losses per run", "reconnect limit in {None, 0, 1, 3}, 0..2 failing reconnect "
               "attempts", "one cancellation at a symbolic await point; sequence counter arbitrary in 1..255",
               "serial: a first send cancelled at one of nine moments (before the write, waiting for the "
               "confirmation, waiting for the answer) on a gateway that confirms / answers it or not, followed "
               "by a second send that must get its own answer in time",
               "3 / 4 concurrent in-transaction senders (two command slots: the rest are parked) with nothing "
               "reported before the adapter is lost, then a send after the reconnection",
               "Tridonic: a device-type command whose ENABLE DEVICE TYPE completed and whose own frame is lost "
               "(after the write / after the echo), optionally with a late report for it after the reconnection"],
    "stubs": ["fake os / transport (harness environment)", "struct format interpreter in symbolic mode"],
    "outside": ["3 callers x every quiescent point", "OS-level behaviour of os.read / add_reader",
                "sends issued while the device is away and never returns (they wait by design)"],
    "assumptions": [],
}

POINTS = ["idle", "write-error", "after-write", "after-echo", "handshake", "after-done"]


def h_tridonic_loss(ctx, point, two_callers, inflight=False, dt=False):
    """dt: the first caller's command needs a device type (ENABLE DEVICE TYPE 6 goes out first and completes;
    a loss 'after-write' / 'after-echo' then strikes the command frame itself).  In that variant a report for
    the lost command (old sequence number) may also arrive late, after the reconnection."""
    import dali.gear.led as led
    with rigs.HidRig(ctx, 17) as rig:
        limit = [None, 0, 1, 3][ctx.fresh_choice("limit", 4)]
        exceptions = ctx.fresh_bool("exceptions")
        kind = "write" if point == "write-error" else ["eof", "oserror"][ctx.fresh_choice("kind", 2)]
        down = ctx.fresh_choice("down_attempts", 3)            # reconnect attempts that fail
        again = ctx.fresh_bool("second_loss") if point in ("after-echo", "after-write") else False
        v1, v2 = ctx.fresh("v1", 0, 255), ctx.fresh("v2", 0, 255)
        out = {"status": [], "opens": []}
        c1 = led.QueryGearType(A.GearShort(1)) if dt else gg.QueryActualLevel(A.GearShort(1))
        c2 = gg.QueryMaxLevel(A.GearShort(2))
        stale = ctx.fresh_bool("late_report_of_lost_command") if dt else False
        wire = []

        async def main(loop):
            state = {"lost": 0, "sends": 0, "handshakes": 0, "lost_seq": None}
            real_open = rig.os.open

            def open_(path, flags):
                out["opens"].append(round(loop.time(), 3))
                return real_open(path, flags)
            rig.os.open = open_
            d = H.tridonic("/dev/dali", reconnect_interval=1, reconnect_limit=limit)
            if ctx.symbolic:
                rigs.symbolic_registries(d)
            rigs.note_idle(d)
            d.exceptions_on_send = exceptions
            d.connection_status_callback.register(lambda dev, s: out["status"].append((round(loop.time(), 3), s)))

            def lose():
                state["lost"] += 1
                out.setdefault("lost_at", []).append(round(loop.time(), 3))
                rig.os.fail_opens = down
                rig.deliver(loop, d, b"" if kind != "oserror" else OSError("gone"))

            def gateway(data):
                if data[0] == 0x01:
                    state["handshakes"] += 1
                    first = state["handshakes"] == 1
                    if data[1] == 0x00:
                        loop.call_soon(rig.deliver, loop, d, bytes([1, 0, 0, 1, 2] + [0] * 59))
                        if point == "handshake" and first and state["lost"] == 0:
                            loop.call_soon(lose)
                    else:
                        loop.call_soon(rig.deliver, loop, d, bytes([1, 1, 2, 3, 4] + [0] * 59))
                        if again and state["lost"] == 1:
                            loop.call_soon(lose)
                    return
                if data[0] != 0x12:
                    return
                state["sends"] += 1
                s = data[1]
                fr = list(data[4:8])
                wire.append((fr[2] << 8) | fr[3])
                val = v1 if fr[2] == 0x03 else v2          # address byte of GearShort(1) query = 0x03
                first_loss = state["lost"] == 0
                if dt and fr[2] == 0xC1:
                    # ENABLE DEVICE TYPE: transmitted, no answer
                    loop.call_soon(rig.deliver, loop, d, rigs.tridonic_report(0x12, 0x73, fr, s))
                    loop.call_soon(rig.deliver, loop, d, rigs.tridonic_report(0x12, 0x71, [0, 0, 0, 0], s))
                    return
                if stale and not first_loss and state["lost_seq"] is not None:
                    # what the interface still had to say about the command that was lost
                    loop.call_soon(rig.deliver, loop, d, rigs.tridonic_report(0x12, 0x72, [0, 0, 0, 0xEE],
                                                                             state["lost_seq"]))
                    state["lost_seq"] = None
                if point == "after-write" and first_loss:
                    if not inflight or state["sends"] == 2:
                        state["lost_seq"] = s
                        loop.call_soon(lose)
                    return
                loop.call_soon(rig.deliver, loop, d, rigs.tridonic_report(0x12, 0x73, fr, s))
                if point == "after-echo" and first_loss:
                    state["lost_seq"] = s
                    loop.call_soon(lose)
                    return
                loop.call_soon(rig.deliver, loop, d, rigs.tridonic_report(0x12, 0x72, [0, 0, 0, val], s))
            rig.os.on_write = gateway
            d.connect()
            await asyncio.sleep(0.2)
            if point == "idle":
                lose()
                await vloop.settle(3)
            if point == "write-error":
                rig.os.fail_writes.add(rig.os.nwrites)
                rig.os.fail_opens = down
            if inflight:
                # both commands in flight at once (callers that manage the transaction themselves)
                t1 = asyncio.ensure_future(d.send(c1, in_transaction=True))
                t2 = asyncio.ensure_future(d.send(c2, in_transaction=True))
            else:
                t1 = asyncio.ensure_future(d.send(c1))
                t2 = asyncio.ensure_future(d.send(c2)) if two_callers else None
            await asyncio.sleep(12.0)
            if point == "after-done":
                lose()
                await asyncio.sleep(8.0)
                t3 = asyncio.ensure_future(d.send(c2))
                await asyncio.sleep(8.0)
                out["t3"] = _result(t3)
            out["t1"], out["t2"] = _result(t1), _result(t2) if t2 else None
            out["connected"] = d.connected.is_set()
            out["identity"] = (d.firmware_version, d.serial)
            out["outstanding"] = rigs.held(d)["entries"]
            out["sem"] = 2 - rigs.held(d)["semaphores"]
            out["locked"] = d.transaction_lock.locked()
            out["watch_alive"] = rigs.background_tasks_alive(d)[0]
            out["handshakes"] = state["handshakes"]
            for t in (t1, t2):
                if t is not None and not t.done():
                    t.cancel()
            d.disconnect()
            await vloop.settle(3)
        st, r = call(vloop.run, main)
        tag = "tridonic/" + point
        if st == "exc":
            ctx.fail("harness run raised %r" % (r,), key=tag + "/run-raised:" + type(r).__name__)
            return "raised"
        # does the device come back?  attempts allowed by the limit vs attempts that fail
        n_loss = 2 if again else 1
        comes_back = limit is None or down < limit
        status = [s for _, s in out["status"]]
        # ---- status callbacks
        ctx.prove(status.count("disconnected") >= n_loss if comes_back else "disconnected" in status,
                  "loss not reported as 'disconnected' (%s)" % status, key=tag + "/status-disconnected")
        if not comes_back:
            ctx.prove("failed" in status, "reconnect limit %r reached after %d failing attempts but 'failed' was "
                      "never reported (%s)" % (limit, down, status), key=tag + "/status-failed")
            ctx.prove(len(out["opens"]) - 1 <= limit + (1 if point == "handshake" else 0) + 1,
                      "more connection attempts than the limit allows", key=tag + "/attempts")
        else:
            ctx.prove(out["connected"], "device came back but the driver is not connected", key=tag + "/reconnected")
            ctx.prove("failed" not in status, "'failed' reported although the device came back", key=tag + "/spurious-failed")
        # retry times: multiples of the interval after each loss
        if out.get("lost_at"):
            t0 = out["lost_at"][0]
            for t in out["opens"][1:1 + down + 1]:
                k = round(t - t0, 3)
                ctx.prove(abs(k - round(k)) < 1e-6 and k >= 1 - 1e-6, "reconnect attempt %.3fs after the loss "
                          "(interval is 1 s)" % k, key=tag + "/retry-interval")
        # ---- the callers
        in_flight = point in ("write-error", "after-write", "after-echo")
        for name, res, val in (("first", out["t1"], v1), ("second", out["t2"], v2), ("third", out.get("t3"), v2)):
            if res is None:
                continue
            kind_, payload = res
            if kind_ == "pending":
                ok_to_wait = not comes_back and not (in_flight and exceptions and
                                                     (name == "first" or (inflight and name == "second")))
                ctx.prove(ok_to_wait, "%s caller still waiting at the end although %s" %
                          (name, "the device came back" if comes_back else "it asked for exceptions"),
                          key=tag + "/hang:" + name)
                continue
            if kind_ == "exc":
                good = isinstance(payload, CommunicationError) and exceptions and in_flight
                ctx.prove(good, "%s caller got %r" % (name, payload), key=tag + "/exception:" + name)
                continue
            ok = isinstance(payload, C.Response) and payload.raw_value is not None and not payload.raw_value.error
            ctx.prove(ok and E.eq(payload.raw_value.as_integer, val),
                      "%s caller completed with %r, not its own answer" % (name, payload), key=tag + "/answer:" + name)
        if in_flight and exceptions and out["t1"][0] == "ok" and not (point == "write-error"):
            ctx.fail("in-flight send completed although the gateway was lost before its answer", key=tag + "/no-error")
        if dt:
            # every transmission of the device-type command (also the one repeated after the reconnection)
            # directly follows its ENABLE DEVICE TYPE
            for k, fv in enumerate(wire):
                if fv == 0x03ED:
                    ctx.prove(k > 0 and wire[k - 1] == 0xC106, "the device-type command went out without its ENABLE "
                              "DEVICE TYPE (wire: %s)" % [hex(x) for x in wire], key=tag + "/edt-missing")
        # ---- nothing left taken
        ctx.prove(out["outstanding"] == 0, "%d in-flight slot(s) left" % out["outstanding"], key=tag + "/slots")
        pend = sum(1 for x in (out["t1"], out["t2"], out.get("t3")) if x and x[0] == "pending")
        ctx.prove(out["sem"] == 2 - 0 or pend > 0, "command semaphore not restored (%r)" % out["sem"], key=tag + "/semaphore")
        ctx.prove(out["locked"] is False or pend > 0, "transaction lock left held", key=tag + "/lock")
        if comes_back:
            ctx.prove(out["handshakes"] >= 2 * (1 + n_loss) - (1 if point == "handshake" else 0) - 1,
                      "handshake not repeated after reconnection", key=tag + "/handshake")
            ctx.prove(out["watch_alive"], "bus watcher not running after reconnection", key=tag + "/watcher")
            ctx.prove(out["identity"] == ("1.2", "01020304"), "after reconnection the driver reports firmware/serial "
                      "%r: the version/serial handshake was not repeated properly" % (out["identity"],),
                      key=tag + "/identity")
        return "%s limit=%s down=%d exc=%s back=%s t1=%s" % (point, limit, down, exceptions, comes_back, out["t1"][0])


def _result(t):
    if t is None:
        return None
    if not t.done():
        return ("pending", None)
    if t.cancelled():
        return ("cancelled", None)
    if t.exception() is not None:
        return ("exc", t.exception())
    return ("ok", t.result())


def h_tridonic_cancel(ctx):
    """Inductive step for the slot-leak invariant: arbitrary sequence counter, no slot taken,
    one send cancelled at a symbolic await point => no slot taken, semaphore restored."""
    seq0 = ctx.fresh("seq0", 1, 255)
    with rigs.HidRig(ctx, seq0) as rig:
        when = ctx.fresh_choice("cancel_at", 4)      # 0 before write .. 3 after echo
        twice = ctx.fresh_bool("sendtwice")
        cmd = gg.SetMaxLevel(A.GearShort(1)) if twice else gg.QueryActualLevel(A.GearShort(1))
        out = {}

        async def main(loop):
            d = await rigs.tridonic_connect(loop, rig)
            stage = {"n": 0}

            def gateway(data):
                if data[0] != 0x12:
                    return
                s = data[1]
                out["seq"] = s
                if when >= 2:
                    loop.call_soon(rig.deliver, loop, d, rigs.tridonic_report(0x12, 0x73, list(data[4:8]), s))
            rig.os.on_write = gateway
            t = asyncio.ensure_future(d.send(cmd))
            for _ in range([0, 2, 4, 8][when]):
                await asyncio.sleep(0)
            t.cancel()
            await vloop.settle(6)
            out["done"] = t.done()
            out["outstanding"] = rigs.held(d)["entries"]
            out["sem"] = 2 - rigs.held(d)["semaphores"]
            out["locked"] = d.transaction_lock.locked()
            # a late report for the cancelled command must be ignored, and a new send must work
            if "seq" in out:
                rig.deliver(loop, d, rigs.tridonic_report(0x12, 0x72, [0, 0, 0, 0x55], out["seq"]))

            def gateway2(data):
                if data[0] != 0x12:
                    return
                loop.call_soon(rig.deliver, loop, d, rigs.tridonic_report(0x12, 0x73, list(data[4:8]), data[1]))
                loop.call_soon(rig.deliver, loop, d, rigs.tridonic_report(0x12, 0x72, [0, 0, 0, 0x66], data[1]))
            rig.os.on_write = gateway2
            t2 = asyncio.ensure_future(d.send(gg.QueryActualLevel(A.GearShort(1))))
            await asyncio.sleep(1.0)
            out["t2"] = _result(t2)
            d.disconnect()
            await vloop.settle(3)
        st, r = call(vloop.run, main)
        tag = "tridonic/cancel"
        if st == "exc":
            ctx.fail("harness run raised %r" % (r,), key=tag + "/run-raised:" + type(r).__name__)
            return "raised"
        ctx.prove(out["done"], "cancelled send not finished", key=tag + "/not-done")
        ctx.prove(out["outstanding"] == 0, "cancelled send leaves its in-flight slot taken (the assertion in "
                  "_send_raw fires when the sequence numbers wrap)", key=tag + "/slot-leak")
        ctx.prove(out["sem"] == 2 and not out["locked"], "semaphore/lock not restored after cancellation",
                  key=tag + "/semaphore")
        ok = out["t2"][0] == "ok" and out["t2"][1].raw_value is not None and out["t2"][1].raw_value.as_integer == 0x66
        ctx.prove(ok, "send after a cancelled one gave %r" % (out["t2"],), key=tag + "/next-send")
        return "cancel@%d" % when


def h_tridonic_cancel_loss(ctx, rounds):
    """A send is cancelled after its frame was handed to the interface, and the interface disappears before it
    reports on that frame - `rounds` times over (the driver reconnects each time).  Afterwards nothing may be
    left taken: an ordinary send completes with its own answer."""
    with rigs.HidRig(ctx, 5) as rig:
        echoed = ctx.fresh_bool("echo_before_cancel")
        kind = ["eof", "oserror"][ctx.fresh_choice("kind", 2)]
        v = ctx.fresh("v", 0, 255)
        out = {"status": []}

        async def main(loop):
            state = {"mode": "leak", "written": 0}
            d = H.tridonic("/dev/dali", reconnect_interval=1)
            if ctx.symbolic:
                rigs.symbolic_registries(d)
            rigs.note_idle(d)
            d.connection_status_callback.register(lambda dev, s: out["status"].append(s))

            def gateway(data):
                if data[0] == 0x01:
                    if data[1] == 0x00:
                        loop.call_soon(rig.deliver, loop, d, bytes([1, 0, 0, 1, 2] + [0] * 59))
                    else:
                        loop.call_soon(rig.deliver, loop, d, bytes([1, 1, 2, 3, 4] + [0] * 59))
                    return
                if data[0] != 0x12:
                    return
                state["written"] += 1
                s, fr = data[1], list(data[4:8])
                if state["mode"] == "leak":
                    if echoed:
                        loop.call_soon(rig.deliver, loop, d, rigs.tridonic_report(0x12, 0x73, fr, s))
                    return
                loop.call_soon(rig.deliver, loop, d, rigs.tridonic_report(0x12, 0x73, fr, s))
                loop.call_soon(rig.deliver, loop, d, rigs.tridonic_report(0x12, 0x72, [0, 0, 0, v], s))
            rig.os.on_write = gateway
            d.connect()
            await asyncio.sleep(0.2)
            for k in range(rounds):
                before = state["written"]
                t = asyncio.ensure_future(d.send(gg.QueryActualLevel(A.GearShort(10 + k))))
                for _ in range(40):
                    if state["written"] > before:
                        break
                    await asyncio.sleep(0.005)
                await vloop.settle(3)
                t.cancel()
                await vloop.settle(4)
                out.setdefault("cancelled", []).append(t.done())
                rig.deliver(loop, d, b"" if kind == "eof" else OSError("gone"))
                await asyncio.sleep(3.0)
            state["mode"] = "normal"
            t3 = asyncio.ensure_future(d.send(gg.QueryMaxLevel(A.GearShort(2))))
            await asyncio.sleep(5.0)
            out["t3"] = _result(t3)
            out["connected"] = d.connected.is_set()
            out["outstanding"] = rigs.held(d)["entries"]
            out["sem"] = 2 - rigs.held(d)["semaphores"]
            out["locked"] = d.transaction_lock.locked()
            if not t3.done():
                t3.cancel()
            d.disconnect()
            await vloop.settle(3)
        st, r = call(vloop.run, main)
        tag = "tridonic/cancel-then-loss-x%d" % rounds
        if st == "exc":
            ctx.fail("harness run raised %r" % (r,), key=tag + "/run-raised:" + type(r).__name__)
            return "raised"
        ctx.prove(all(out.get("cancelled", [])), "a cancelled send did not finish", key=tag + "/not-done")
        ctx.prove(out["connected"], "the driver did not reconnect", key=tag + "/reconnected")
        kind_, payload = out["t3"]
        ctx.prove(kind_ != "pending", "a send after %d cancelled-then-lost commands hangs" % rounds, key=tag + "/hang")
        if kind_ == "ok":
            ok = isinstance(payload, C.Response) and payload.raw_value is not None and not payload.raw_value.error
            ctx.prove(ok and E.eq(payload.raw_value.as_integer, v), "the later send completed with %r" % (payload,),
                      key=tag + "/answer")
        elif kind_ == "exc":
            ctx.fail("the later send failed with %r" % (payload,), key=tag + "/raised")
        ctx.prove(out["outstanding"] == 0, "%d in-flight slot(s) left" % out["outstanding"], key=tag + "/slots")
        ctx.prove(out["sem"] == 2 or kind_ == "pending", "command semaphore not restored (%r)" % out["sem"],
                  key=tag + "/semaphore")
        ctx.prove(not out["locked"] or kind_ == "pending", "transaction lock left held", key=tag + "/lock")
        return "rounds=%d %s" % (rounds, kind_)


def h_hasseb_loss(ctx, point):
    with rigs.HidRig(ctx, 1) as rig:
        exceptions = ctx.fresh_bool("exceptions")
        val = ctx.fresh("val", 0, 255)
        out = {"status": []}
        cmd = gg.QueryActualLevel(A.GearShort(1))

        async def main(loop):
            d = H.hasseb("/dev/hasseb", reconnect_interval=1)
            d.exceptions_on_send = exceptions
            d.connection_status_callback.register(lambda dev, s: out["status"].append(s))
            n = {"w": 0, "lost": 0}

            def gateway(data):
                n["w"] += 1
                if point == "after-write" and n["lost"] == 0:
                    n["lost"] = 1
                    loop.call_soon(rig.deliver, loop, d, b"")
                    return
                loop.call_later(0.01, rig.deliver, loop, d, rigs.mkbytes([2, val]))
            rig.os.on_write = gateway
            d.connect()
            await vloop.settle(2)
            if point == "write-error":
                rig.os.fail_writes.add(rig.os.nwrites)
            t = asyncio.ensure_future(d.send(cmd))
            await asyncio.sleep(6.0)
            out["t"] = _result(t)
            out["locked"] = d.transaction_lock.locked()
            out["cmdlock"] = rigs.held(d)["locks"] > 0
            if not t.done():
                t.cancel()
            d.disconnect()
            await vloop.settle(3)
        st, r = call(vloop.run, main)
        tag = "hasseb/" + point
        if st == "exc":
            ctx.fail("harness run raised %r" % (r,), key=tag + "/run-raised:" + type(r).__name__)
            return "raised"
        kind_, payload = out["t"]
        ctx.prove(kind_ != "pending", "send still waiting 6 s after the gateway was lost and came back",
                  key=tag + "/hang")
        if kind_ == "exc":
            ctx.prove(isinstance(payload, CommunicationError) and exceptions,
                      "send failed with %r (exceptions=%s)" % (payload, exceptions), key=tag + "/exception")
        elif kind_ == "ok":
            ok = payload is not None and payload.raw_value is not None
            ctx.prove(ok and E.eq(payload.raw_value.as_integer, val), "send completed with %r" % (payload,),
                      key=tag + "/answer")
            ctx.prove(not exceptions, "send completed although the gateway was lost and exceptions were requested",
                      key=tag + "/no-error")
        ctx.prove(not out["locked"] and not out["cmdlock"], "a lock was left held", key=tag + "/lock")
        ctx.prove("disconnected" in out["status"], "loss not reported (%s)" % out["status"], key=tag + "/status")
        return "%s exc=%s -> %s" % (point, exceptions, kind_)


def h_serial_silence(ctx, which, when, dt=False):
    import dali.gear.led as led
    cmd = led.QueryFeatures(A.GearShort(1)) if dt else gg.QueryActualLevel(A.GearShort(1))
    out = {}
    cut = 0
    refuse_code = [1, 2, 0x80][ctx.fresh_choice("refuse_code", 3)] if when == "refused" else None
    if when == "truncated":
        full_len = len(rigs.luba_event_tx(1, b"\x00\x00")) if which == "luba" else 5
        cut = 1 + ctx.fresh_choice("cut", full_len - 1)

    async def main(loop):
        d, p, t = (rigs.luba_driver if which == "luba" else rigs.sci_driver)(loop)

        def gateway(data):
            if when == "confirm":
                return                       # the gateway never confirms
            if when == "refused":
                # the gateway refuses every frame it is offered (transmit buffer full, error code e) and so
                # never confirms a transmission
                out["writes"] = out.get("writes", 0) + 1
                if out["writes"] <= 400:
                    loop.call_later(0.005, p.data_received, bytes(rigs.luba_frame(0x33, [refuse_code])))
                return
            if when == "truncated":
                # the confirmation breaks off after k bytes, then the line stays dead
                if out.get("writes", 0) == 0:
                    full = rigs.luba_event_tx(1, data[6:8]) if which == "luba" else rigs.sci_frame(0x10, 0, 0, 0)
                    loop.call_later(0.02, p.data_received, bytes(full[:cut]))
                out["writes"] = out.get("writes", 0) + 1
                return
            if which == "luba":
                loop.call_later(0.02, p.data_received, rigs.luba_event_tx(1, data[6:8]))
            else:
                loop.call_later(0.02, p.data_received, rigs.sci_frame(0x10, 0, 0, 0))
            out["writes"] = out.get("writes", 0) + 1
        t.on_write = gateway
        t0 = loop.time()
        tk = asyncio.ensure_future(d.send(cmd))
        tk2 = asyncio.ensure_future(d.send(cmd))          # queued behind the first
        while not tk.done() and loop.time() - t0 < 10:
            await asyncio.sleep(0.005)
        out["elapsed"] = loop.time() - t0
        out["t"] = _result(tk)
        await asyncio.sleep(5.0)
        out["t2"] = _result(tk2)
        out["locked"] = d.transaction_lock.locked()
        out["txlock"] = rigs.held(p)["locks"] > 0
    st, r = call(vloop.run, main)
    tag = "%s/silent-%s%s" % (which, when, "-dt" if dt else "")
    if st == "exc":
        ctx.fail("harness run raised %r" % (r,), key=tag + "/run-raised:" + type(r).__name__)
        return "raised"
    drv = S.DriverLubaRs232 if which == "luba" else S.DriverSCIRS232
    kind_, payload = out["t"]
    ctx.prove(kind_ != "pending", "send hangs on a silent gateway", key=tag + "/hang")
    if when in ("confirm", "truncated", "refused"):
        ctx.prove(kind_ == "exc", "send returned %r although the gateway never confirmed" % (payload,),
                  key=tag + "/no-error")
        ctx.prove(out["elapsed"] <= drv.timeout_tx_confirm + 0.05, "failed only after %.3f s (documented timeout "
                  "%.3f s)" % (out["elapsed"], drv.timeout_tx_confirm), key=tag + "/late")
    else:
        ok = kind_ == "ok" and type(payload) is type(cmd).response and payload.raw_value is None
        ctx.prove(ok, "unanswered query gave %s %r" % (kind_, payload), key=tag + "/no-answer")
        ctx.prove(out["elapsed"] <= (2 if dt else 1) * 0.02 + drv.timeout_rx + 0.02,
                  "'no answer' only after %.3f s" % out["elapsed"], key=tag + "/late")
    ctx.prove(out["t2"][0] != "pending", "the queued caller never got its turn", key=tag + "/queued-hang")
    ctx.prove(not out["locked"] and not out["txlock"], "a lock was left held", key=tag + "/lock")
    return "%s:%s" % (when, kind_)


def h_tridonic_parked(ctx, nsend):
    """More concurrent in-transaction senders than the interface has command slots (two): the surplus ones are
    parked waiting for a slot when the adapter disappears before anything was reported.  Everybody fails (or
    is retried after the reconnection), no slot stays taken, and a send issued after the reconnection
    completes with its own answer."""
    with rigs.HidRig(ctx, 23) as rig:
        exceptions = ctx.fresh_bool("exceptions")
        kind = ["eof", "oserror"][ctx.fresh_choice("kind", 2)]
        vals = [ctx.fresh("v%d" % i, 0, 255) for i in range(nsend + 1)]
        cmds = [gg.QueryActualLevel(A.GearShort(i + 1)) for i in range(nsend + 1)]
        out = {}

        async def main(loop):
            state = {"lost": False}
            d = H.tridonic("/dev/dali", reconnect_interval=1)
            if ctx.symbolic:
                rigs.symbolic_registries(d)
            rigs.note_idle(d)
            d.exceptions_on_send = exceptions

            def gateway(data):
                if data[0] == 0x01:
                    if data[1] == 0x00:
                        loop.call_soon(rig.deliver, loop, d, bytes([1, 0, 0, 1, 2] + [0] * 59))
                    else:
                        loop.call_soon(rig.deliver, loop, d, bytes([1, 1, 2, 3, 4] + [0] * 59))
                    return
                if data[0] != 0x12 or not state["lost"]:
                    return                      # before the loss the interface is busy: no report yet
                s = data[1]
                fr = list(data[4:8])
                val = vals[(fr[2] >> 1) - 1]
                loop.call_soon(rig.deliver, loop, d, rigs.tridonic_report(0x12, 0x73, fr, s))
                loop.call_soon(rig.deliver, loop, d, rigs.tridonic_report(0x12, 0x72, [0, 0, 0, val], s))
            rig.os.on_write = gateway
            d.connect()
            await asyncio.sleep(0.2)
            tasks = [asyncio.ensure_future(d.send(c, in_transaction=True)) for c in cmds[:nsend]]
            await asyncio.sleep(0.3)
            out["written_before_loss"] = sum(1 for w in rig.os.writes if w[0] == 0x12)
            state["lost"] = True
            rig.deliver(loop, d, b"" if kind == "eof" else OSError("gone"))
            await asyncio.sleep(6.0)
            out["first"] = [_result(t) for t in tasks]
            last = asyncio.ensure_future(d.send(cmds[nsend]))
            await asyncio.sleep(6.0)
            out["last"] = _result(last)
            out["connected"] = d.connected.is_set()
            out["outstanding"] = rigs.held(d)["entries"]
            out["sem"] = 2 - rigs.held(d)["semaphores"]
            out["locked"] = d.transaction_lock.locked()
            for t in tasks + [last]:
                if not t.done():
                    t.cancel()
            d.disconnect()
            await vloop.settle(3)
        st, r = call(vloop.run, main)
        tag = "tridonic/parked-%d" % nsend
        if st == "exc":
            ctx.fail("harness run raised %r" % (r,), key=tag + "/run-raised:" + type(r).__name__)
            return "raised"
        ctx.prove(out["written_before_loss"] == 2, "%d commands written with two command slots"
                  % out["written_before_loss"], key=tag + "/slots-used")
        for i, res in enumerate(out["first"]):
            kind_, payload = res
            ctx.prove(kind_ != "pending", "sender %d still waiting 6 s after the loss" % i, key=tag + "/hang")
            if kind_ == "exc":
                ctx.prove(exceptions and isinstance(payload, CommunicationError), "sender %d got %r" % (i, payload),
                          key=tag + "/exception")
            elif kind_ == "ok":
                ok = not exceptions or i >= 2     # with exceptions on, the two in flight must have failed
                good = type(payload) is C.NumericResponseMask and payload.raw_value is not None
                ctx.prove(ok and good and E.eq(payload.raw_value.as_integer, vals[i]),
                          "sender %d completed with %r" % (i, payload), key=tag + "/answer")
        kind_, payload = out["last"]
        good = kind_ == "ok" and type(payload) is C.NumericResponseMask and payload.raw_value is not None
        ctx.prove(good and E.eq(payload.raw_value.as_integer, vals[nsend]),
                  "a send after the reconnection gave %s %r" % (kind_, payload), key=tag + "/after-reconnection")
        ctx.prove(out["connected"], "not connected after the device came back", key=tag + "/reconnected")
        ctx.prove(out["outstanding"] == 0 and out["sem"] == 2 and not out["locked"],
                  "left behind: %d in-flight slot(s), semaphore %r, lock %r"
                  % (out["outstanding"], out["sem"], out["locked"]), key=tag + "/leftovers")
        return "exc=%s %s" % (exceptions, ",".join(k for k, _ in out["first"]))


def h_serial_cancel(ctx, which, dt=False):
    """A healthy serial gateway (confirmation 20/50 ms after the write, answer 12 ms later).  The first send is
    cancelled by its caller at a solver-chosen moment - before the write, while waiting for the confirmation,
    while waiting for the answer - and after things have settled a second caller sends another query: it must
    complete with its own answer within the documented time, and no lock may be left behind."""
    import dali.gear.led as led
    c1 = led.QueryFeatures(A.GearShort(1)) if dt else gg.QueryActualLevel(A.GearShort(1))
    c2 = gg.QueryMaxLevel(A.GearShort(2))
    v1, v2 = ctx.fresh("v1", 0, 255), ctx.fresh("v2", 0, 255)
    when = ctx.fresh_choice("cancel_at", 9)          # multiples of 10 ms after the send started
    confirmed1 = ctx.fresh_bool("first_confirmed")   # the gateway confirms the first frame (or loses it)
    answered1 = ctx.fresh_bool("first_answered")     # the unit answers the first query (or the bus stays silent)
    out = {}

    async def main(loop):
        d, p, t = (rigs.luba_driver if which == "luba" else rigs.sci_driver)(loop)
        nwr = {"n": 0}

        def gateway(data):
            nwr["n"] += 1
            if which == "luba":
                nb = data[4] // 8
                fb = data[6:6 + nb]
                is_edt = nb == 2 and fb[0] == 0xC1
                first = fb[0] == 0x03
                val = v1 if first else v2
                if confirmed1 or not first:
                    loop.call_later(0.02, p.data_received, rigs.luba_event_tx(nwr["n"], fb))
                if not is_edt and (not first or (answered1 and confirmed1)):
                    loop.call_later(0.032, p.data_received, rigs.luba_event_rx([val]))
            else:
                is_edt = (data[0] & 0x0F) == 3 and data[1] == 0xC1
                first = data[1] == 0x03
                val = v1 if first else v2
                if confirmed1 or not first:
                    loop.call_later(0.02, p.data_received, rigs.sci_frame(0x10, 0, 0, 0))
                if not is_edt and (not first or (answered1 and confirmed1)):
                    loop.call_later(0.032, p.data_received, rigs.sci_frame(0x12, 0, 0, val))
        t.on_write = gateway
        t1 = asyncio.ensure_future(d.send(c1))
        await asyncio.sleep(0.01 * when + 0.001)
        t1.cancel()
        await asyncio.sleep(1.0)
        out["t1"] = _result(t1)
        out["locked1"] = d.transaction_lock.locked() or rigs.held(p)["locks"] > 0
        t0 = loop.time()
        t2 = asyncio.ensure_future(d.send(c2))
        while not t2.done() and loop.time() - t0 < 5:
            await asyncio.sleep(0.005)
        out["elapsed"] = loop.time() - t0
        out["t2"] = _result(t2)
        out["locked"] = d.transaction_lock.locked() or rigs.held(p)["locks"] > 0
        if not t2.done():
            t2.cancel()
    st, r = call(vloop.run, main)
    tag = "%s/cancel%s" % (which, "-dt" if dt else "")
    if st == "exc":
        ctx.fail("harness run raised %r" % (r,), key=tag + "/run-raised:" + type(r).__name__)
        return "raised"
    ctx.prove(not out["locked1"], "a lock stays taken after the cancelled send", key=tag + "/lock-after-cancel")
    kind_, payload = out["t2"]
    ctx.prove(kind_ != "pending", "the send after a cancelled one hangs", key=tag + "/hang")
    ok = kind_ == "ok" and type(payload) is type(c2).response and payload.raw_value is not None \
        and not payload.raw_value.error
    ctx.prove(ok and E.eq(payload.raw_value.as_integer, v2),
              "the send after a cancelled one gave %s %r instead of its own answer" % (kind_, payload),
              key=tag + "/next-answer")
    ctx.prove(out["elapsed"] <= 0.2, "the send after a cancelled one took %.3f s on a healthy gateway" % out["elapsed"],
              key=tag + "/next-late")
    ctx.prove(not out["locked"], "a lock was left held", key=tag + "/lock")
    return "cancel@%d:%s" % (when, out["t1"][0])


def cases(tier):
    inst = rigs.install_tridonic_structs
    cs = [Case("tridonic-cancel", h_tridonic_cancel, {}, install=inst)]
    for n in (1, 2, 3):
        cs.append(Case("tridonic-cancel-then-loss-x%d" % n, h_tridonic_cancel_loss, {"rounds": n}, install=inst))
    for p in POINTS:
        cs.append(Case("tridonic-%s" % p, h_tridonic_loss, {"point": p, "two_callers": False}, install=inst))
        if p in ("after-echo", "write-error", "idle") or tier != "quick":
            cs.append(Case("tridonic-%s-2" % p, h_tridonic_loss, {"point": p, "two_callers": True}, install=inst))
    for p in ("after-write", "after-echo"):
        cs.append(Case("tridonic-%s-dt" % p, h_tridonic_loss, {"point": p, "two_callers": False, "dt": True},
                       install=inst))
    cs.append(Case("tridonic-after-write-inflight", h_tridonic_loss,
                   {"point": "after-write", "two_callers": True, "inflight": True}, install=inst))
    for p in ("write-error", "after-write"):
        cs.append(Case("hasseb-%s" % p, h_hasseb_loss, {"point": p}, install=inst))
    for which in ("luba", "sci"):
        cs.append(Case("%s-silent-truncated" % which, h_serial_silence, {"which": which, "when": "truncated"}))
        if which == "luba":
            cs.append(Case("luba-refused", h_serial_silence, {"which": "luba", "when": "refused"}))
        for when in ("confirm", "answer"):
            cs.append(Case("%s-silent-%s" % (which, when), h_serial_silence, {"which": which, "when": when}))
            cs.append(Case("%s-silent-%s-dt" % (which, when), h_serial_silence,
                           {"which": which, "when": when, "dt": True}))
    for n in (3, 4):
        cs.append(Case("tridonic-parked-%d" % n, h_tridonic_parked, {"nsend": n}, install=inst))
    for which in ("luba", "sci"):
        cs.append(Case("%s-cancel" % which, h_serial_cancel, {"which": which}))
        cs.append(Case("%s-cancel-dt" % which, h_serial_cancel, {"which": which, "dt": True}))
    return cs
