"""C18 - bytes exchanged with each gateway follow that gateway's wire format."""
import asyncio
import sys
import types

from symx import E, Case, vloop
from harness.common import call
from harness import rigs
from spec import wire_formats as WF

import dali.frame as F
import dali.command as C
import dali.driver.hid as H
import dali.driver.serial as S
import dali.driver.daliserver as DS
import dali.driver.tridonic as LT
import dali.driver.hasseb as LH
import dali.driver.unipi as UP
import dali.driver.atxled as ATX
from dali.exceptions import UnsupportedFrameTypeError, CommunicationError

META = {
    "level_text": "Bounded symbolic verification of every driver's packet builder and packet reader: a command "
                  "whose 16- or 24-bit frame is fully symbolic (send-twice / query flags enumerated) is sent "
                  "through the real driver code (asyncio drivers on a virtual-time event loop with a fake "
                  "os/transport/socket); z3 shows the bytes handed to the gateway equal the vendor format's "
                  "encoder for all frame values (field position and alignment, mode/length code, send-twice "
                  "flag, padding, XOR checksum); frames of every other width 1..64 are refused; sequence "
                  "number generators are checked by an inductive step from an arbitrary state; received "
                  "packets with symbolic bytes decode to what the format denotes.",
    "level_note": "Trusted: the format transcriptions in /verif/spec/wire_formats.py (from the vendor documents "
                  "quoted in the drivers); asyncio itself; z3/cvc5; symx semantics incl. the struct-format "
                  "interpreter (each path re-run concretely with the real struct). Not asserted: the alignment "
                  "of 8/16-bit frames in SCI RS232 transmit packets (transcriber unsure; either alignment is "
                  "accepted). LUBA priority: the policy the driver documents (2 for DAPC and addressed instructions "
                  "that are neither queries nor sent twice, 5 otherwise) is asserted per IEC table row.",
    "explanation": "symbolic execution of the drivers' construct/_cmd/_send_raw/send_dali_command/send/extract/"
                   "unpack_response code with symbolic frame and packet bytes",
    "bounds": ["daliserver stream history shared with C16 (two commands, persistent or per-command connection)",
               "frame bits fully symbolic (2^16 / 2^24), flags enumerated", "unsupported widths 1..64 symbolic",
               "sequence numbers: arbitrary state, two consecutive calls",
               "receive side: status/type bytes and values symbolic",
               "Tridonic, LUBA, SCI: two commands of different widths (24 then 16, 16 then 24, ...) through the "
               "same driver object, both packets compared with the wire format; unsupported widths also "
               "when the command arrives inside a sequence or with exceptions off; two gateways of a kind open "
               "at once on the receive side",
               "LUBA priority: every 16-bit row of the IEC tables (quick: part 102; thorough: all parts) with "
               "symbolic address and parameter, the command object decoded by the real from_frame"],
    "stubs": ["fake os / transport / socket (harness environment)", "struct format interpreter in symbolic mode",
              "empty stand-ins for the uninstalled usb / hid / pymodbus.client.sync packages"],
    "outside": ["SCI transmit alignment of 8/16-bit frames (not asserted)",
                "the ATX hat's retry loop in send()", "USB/Modbus back ends"],
    "assumptions": [],
}


def _frame(ctx, bits):
    x = ctx.fresh("x", 0, (1 << bits) - 1)
    return x, F.ForwardFrame(bits, x)


def _bytes_of(x, bits):
    return [(x >> (8 * i)) & 0xFF for i in reversed(range(bits // 8))]


def _eq_bytes(got, want):
    got, want = list(got), list(want)
    if len(got) != len(want):
        return False
    return E.and_(*[E.eq(a, b) for a, b in zip(got, want)])


async def _submit(d, cmd, via):
    """Hand a command to the driver directly or as a one-command sequence (both are ways in)."""
    if via == "send":
        return await d.send(cmd)
    if via == "send-noexc":
        # the caller asked for transparent retries instead of CommunicationError: a frame the interface
        # cannot carry is still refused (it is not a communication problem, retrying cannot help)
        return await d.send(cmd, exceptions=False)

    def seq():
        yield cmd
    return await d.run_sequence(seq())


# ---------------------------------------------------------------------------------------------
# HID Tridonic

def h_tridonic_tx(ctx, bits, twice, query):
    seq0 = ctx.fresh("seq0", 1, 255)
    with rigs.HidRig(ctx, seq0) as rig:
        x, fr = _frame(ctx, bits)
        cmd = rigs.make_command(fr, sendtwice=twice, response=C.Response if query else None)
        out = {}

        async def main(loop):
            d = await rigs.tridonic_connect(loop, rig)
            n0 = len(rig.os.writes)

            def gateway(data):
                if data[0] != 0x12:
                    return
                s = data[1]
                # (fixed echo contents: the bus watcher would otherwise decode a symbolic frame)
                echo = rigs.tridonic_report(0x12, 0x73 if bits == 16 else 0x76, [0, 0, 0xFE, 0x00], s)
                for _ in range(2 if twice else 1):
                    loop.call_soon(rig.deliver, loop, d, echo)
                loop.call_soon(rig.deliver, loop, d, rigs.tridonic_report(0x12, 0x71, [0, 0, 0, 0], s))
            rig.os.on_write = gateway
            r = await asyncio.wait_for(d.send(cmd), 5)
            out["writes"] = rig.os.writes[n0:]
            out["r"] = r
            d.disconnect()
            await vloop.settle(2)
        st, r = call(vloop.run, main)
        if st == "exc":
            ctx.fail("send raised %r" % (r,), key="tridonic/tx-raised:" + type(r).__name__)
            return "raised"
        w = out["writes"]
        ctx.prove(len(w) == 1, "%d reports written for one command" % len(w), key="tridonic/tx-count")
        if w:
            s1 = w[0][1]
            ctx.prove(E.between(1, s1, 255), "sequence number outside 1..255", key="tridonic/tx-seq")
            ctx.prove(_eq_bytes(w[0], WF.tridonic_tx_report(s1, x, bits, twice)),
                      "report differs from the Tridonic DALI USB send format", key="tridonic/tx-bytes")
        ctx.observe("report", list(w[0])[:9] if w else None)
        return "ok"


def h_tridonic_width(ctx, via="send"):
    with rigs.HidRig(ctx, 9) as rig:
        w = ctx.fresh("w", 1, 64)
        ctx.assume(E.and_(E.ne(w, 16), E.ne(w, 24)))
        x = ctx.fresh("x", 0, 1)
        cmd = rigs.make_command(F.ForwardFrame(w, x))
        out = {}

        async def main(loop):
            d = await rigs.tridonic_connect(loop, rig)
            n0 = len(rig.os.writes)
            try:
                await asyncio.wait_for(_submit(d, cmd, via), 5)
                out["r"] = "returned"
            except Exception as e:  # noqa
                out["r"] = e
            out["n"] = len(rig.os.writes) - n0
            out["locked"] = d.transaction_lock.locked()
            d.disconnect()
        st, r = call(vloop.run, main)
        ctx.prove(st == "ok" and isinstance(out.get("r"), UnsupportedFrameTypeError),
                  "unsupported width gave %r" % (out.get("r", r),), key="tridonic/width-refused")
        ctx.prove(out.get("n") == 0 and out.get("locked") is False, "something written / lock kept for a refused frame",
                  key="tridonic/width-clean")
        return "refused"


def h_tridonic_seq(ctx):
    i = ctx.fresh("i", 1, 255)
    g = H.tridonic._seqnum(i)
    a, b, c = next(g), next(g), next(g)
    ctx.prove(E.and_(E.eq(a, i), E.between(1, b, 255), E.between(1, c, 255), E.ne(a, b), E.ne(b, c)),
              "sequence numbers leave 1..255 or repeat immediately", key="tridonic/seq")
    return "ok"


# ---------------------------------------------------------------------------------------------
# HID hasseb

def h_hasseb_tx(ctx, twice):
    with rigs.HidRig(ctx, 1) as rig:
        x, fr = _frame(ctx, 16)
        cmd = rigs.make_command(fr, sendtwice=twice)
        out = {}

        async def main(loop):
            d = H.hasseb("/dev/hasseb")
            d.connect()
            await vloop.settle(2)
            await asyncio.wait_for(d.send(cmd), 5)
            out["w"] = list(rig.os.writes)
            d.disconnect()
        st, r = call(vloop.run, main)
        if st == "exc":
            ctx.fail("send raised %r" % (r,), key="hasseb/tx-raised:" + type(r).__name__)
            return "raised"
        w = out["w"]
        ctx.prove(len(w) == (2 if twice else 1), "%d writes" % len(w), key="hasseb/tx-count")
        for pkt in w:
            ctx.prove(_eq_bytes(pkt, _bytes_of(x, 16)), "packet is not the big-endian 16-bit frame",
                      key="hasseb/tx-bytes")
        return "ok"


def h_hasseb_width(ctx, via="send"):
    with rigs.HidRig(ctx, 1) as rig:
        w = ctx.fresh("w", 1, 64)
        ctx.assume(E.ne(w, 16))
        cmd = rigs.make_command(F.ForwardFrame(w, 0))
        out = {}

        async def main(loop):
            d = H.hasseb("/dev/hasseb")
            d.connect()
            await vloop.settle(2)
            try:
                await asyncio.wait_for(_submit(d, cmd, via), 5)
                out["r"] = "returned"
            except Exception as e:  # noqa
                out["r"] = e
            out["n"] = len(rig.os.writes)
            d.disconnect()
        st, r = call(vloop.run, main)
        ctx.prove(st == "ok" and isinstance(out.get("r"), UnsupportedFrameTypeError) and out.get("n") == 0,
                  "unsupported width gave %r" % (out.get("r", r),), key="hasseb/width-refused")
        return "refused"


# ---------------------------------------------------------------------------------------------
# LUBA / SCI transmit

def h_luba_tx(ctx, bits, twice):
    x, fr = _frame(ctx, bits)
    cmd = rigs.make_command(fr, sendtwice=twice)
    out = {}

    async def main(loop):
        d, p, t = rigs.luba_driver(loop)

        def gateway(data):
            # (the content of the confirmation is not the subject here: a fixed frame avoids
            # decoding a symbolic frame inside the receiver)
            for _ in range(2 if twice else 1):
                loop.call_soon(p.data_received, rigs.luba_event_tx(5, [0xFE, 0x00]))
        t.on_write = gateway
        await asyncio.wait_for(d.send(cmd), 5)
        out["w"] = t.writes
    st, r = call(vloop.run, main)
    if st == "exc":
        ctx.fail("send raised %r" % (r,), key="luba/tx-raised:" + type(r).__name__)
        return "raised"
    w = out["w"]
    ctx.prove(len(w) == 1, "%d packets written" % len(w), key="luba/tx-count")
    if w:
        pkt = w[0]
        ok = len(pkt) == 11
        if ok:
            prio = pkt[5] & 0x07
            want = WF.luba_tx_frame(_bytes_of(x, bits), twice, prio)
            ctx.prove(_eq_bytes(pkt, want), "packet differs from the LUBA 'add DALI frame to TX buffer' format",
                      key="luba/tx-bytes")
            ctx.prove(E.and_(E.between(1, prio, 5), E.eq(pkt[5] & 0x78, 0)),
                      "mode byte carries an out-of-range priority or stray bits", key="luba/tx-mode")
        else:
            ctx.fail("packet length %d" % len(pkt), key="luba/tx-len")
    return "ok"


def h_luba_prio(ctx, idx):
    """Priority bits of the LUBA mode byte for a real command object of every 16-bit table row."""
    from spec import iec_tables as T
    part, name, kind, code, param, twice, answer, devtype = T.ROWS[idx]
    if kind in ("dapc", "std"):
        ak = ctx.fresh_choice("ak", 4)
        a7 = [lambda: ctx.fresh("a", 0, 63), lambda: 0x40 | ctx.fresh("a", 0, 15), lambda: 0x7F, lambda: 0x7E][ak]()
        p = ctx.fresh("p", 0, 255) if kind == "dapc" else (ctx.fresh("p", 0, 15) if param == "n4" else None)
        x = T.encode16(kind, code, a7, p)
    else:
        if param == "byte":
            p = ctx.fresh("p", 0, 255)
        elif param == "short":
            p = 0xFF if ctx.fresh_bool("mask") else (ctx.fresh("a", 0, 63) << 1) | 1
        elif param == "init":
            p = T.init_byte([("all",), ("unaddressed",), ("short", 5)][ctx.fresh_choice("ib", 3)])
        else:
            p = None
        x = T.encode16(kind, code, None, p)
    st, cmd = call(C.from_frame, F.ForwardFrame(16, x), devicetype=devtype)
    tag = "luba-prio/%d/%s" % (part, name)
    if st == "exc" or type(cmd).__name__ != name:
        ctx.fail("table frame decodes to %r" % (cmd,), key=tag + "/decode")
        return "decode?"
    out = {}

    async def main(loop):
        d, pr, t = rigs.luba_driver(loop)

        def gateway(data):
            for _ in range(2 if (data[5] & 0x80) else 1):
                loop.call_soon(pr.data_received, rigs.luba_event_tx(5, [0xFE, 0x00]))
        t.on_write = gateway
        await asyncio.wait_for(d.send(cmd), 5)
        out["w"] = t.writes
    st, r = call(vloop.run, main)
    if st == "exc":
        ctx.fail("send raised %r" % (r,), key=tag + "/raised:" + type(r).__name__)
        return "raised"
    w = out["w"]
    ctx.prove(len(w) == (2 if devtype else 1), "%d packets written" % len(w), key=tag + "/count")
    want = WF.luba_priority(kind, twice, answer)
    if want is None:
        ctx.note("unasserted-priority:%d:%s" % (part, name))
        return "unasserted"
    pkt = w[-1]
    ctx.prove(len(pkt) == 11 and bool(E.eq(pkt[5] & 0x07, want)),
              "priority %s, documented policy says %d for %s" % (pkt[5] & 7 if len(pkt) == 11 else "?", want, name),
              key=tag + "/priority")
    if devtype:
        ctx.prove(len(w[0]) == 11 and bool(E.eq(w[0][5] & 0x07, 5)),
                  "ENABLE DEVICE TYPE not sent with priority 5", key=tag + "/edt-priority")
    return "prio%d" % want


def h_sci_tx(ctx, bits, twice):
    x, fr = _frame(ctx, bits)
    cmd = rigs.make_command(fr, sendtwice=twice)
    out = {}

    async def main(loop):
        d, p, t = rigs.sci_driver(loop)
        t.on_write = lambda data: loop.call_soon(p.data_received, rigs.sci_frame(0x10, 0, 0, 0))
        await asyncio.wait_for(d.send(cmd), 5)
        out["w"] = t.writes
    st, r = call(vloop.run, main)
    if st == "exc":
        ctx.fail("send raised %r" % (r,), key="sci/tx-raised:" + type(r).__name__)
        return "raised"
    w = out["w"]
    ctx.prove(len(w) == 1 and len(w[0]) == 5, "unexpected packets %r" % ([len(p) for p in w],), key="sci/tx-count")
    if w and len(w[0]) == 5:
        pkt = w[0]
        fb = _bytes_of(x, bits)
        ctrl = 0x80 | 0x20 | (0x10 if twice else 0) | {16: 3, 24: 8}[bits]
        ctx.prove(E.eq(pkt[0], ctrl), "control byte differs (monitor, echo, send-twice, mode)", key="sci/tx-control")
        ctx.prove(E.eq(pkt[4], pkt[0] ^ pkt[1] ^ pkt[2] ^ pkt[3]), "checksum is not the XOR of the four bytes",
                  key="sci/tx-checksum")
        if bits == 24:
            ctx.prove(_eq_bytes(pkt[1:4], fb), "24-bit frame not in hi/mi/lo", key="sci/tx-data24")
        else:
            left = _eq_bytes(pkt[1:4], fb + [0])
            right = _eq_bytes(pkt[1:4], [0] + fb)
            ctx.prove(E.or_(left, right), "16-bit frame bytes not contiguous in the data field", key="sci/tx-data16")
            ctx.note("unasserted:sci-16bit-alignment")
    return "ok"


def h_serial_width(ctx, which, via="send"):
    w = ctx.fresh("w", 1, 64)
    lim = (16, 24) if which == "luba" else (8, 16, 24)
    # widths are refused by byte count: everything that does not pack into 2/3 (1/2/3) bytes
    nbytes = (w + 7) // 8
    ctx.assume(E.and_(*[E.ne(nbytes, b // 8) for b in lim]))
    cmd = rigs.make_command(F.ForwardFrame(w, 0))
    out = {}

    async def main(loop):
        d, p, t = (rigs.luba_driver if which == "luba" else rigs.sci_driver)(loop)
        try:
            await asyncio.wait_for(_submit(d, cmd, via), 5)
            out["r"] = "returned"
        except Exception as e:  # noqa
            out["r"] = e
        out["n"] = len(t.writes)
        out["locked"] = d.transaction_lock.locked()
    st, r = call(vloop.run, main)
    ctx.prove(st == "ok" and isinstance(out.get("r"), Exception) and out.get("n") == 0,
              "frame the gateway cannot carry gave %r" % (out.get("r", r),), key=which + "/width-refused")
    ctx.prove(out.get("locked") is False, "transaction lock kept after a refused frame", key=which + "/width-lock")
    return "refused"


# ---------------------------------------------------------------------------------------------
# daliserver

class FakeSocket:
    """A stream: each 4-byte request written (alone or together with others) is answered with one 4-byte status."""

    def __init__(self, replies, reqlen=4):
        self.sent = []
        self.replies = list(replies)
        self.buf = []
        self.reqlen = reqlen

    def send(self, data):
        for off in range(0, len(data), self.reqlen):
            self.sent.append(data[off:off + self.reqlen])
            if self.replies:
                self.buf.extend(self.replies.pop(0))
        return len(data)

    sendall = send

    def recv(self, n):
        if not self.buf:
            raise rigs._env(RuntimeError("recv() with nothing to read: the client would block forever"))
        out, self.buf = self.buf[:n], self.buf[n:]
        return rigs.mkbytes(out)

    def close(self):
        pass


def h_daliserver(ctx, bits, twice, query):
    x, fr = _frame(ctx, bits)
    status = ctx.fresh("status", 0, 255)
    val = ctx.fresh("val", 0, 255)
    reply = rigs.mkbytes([2, status, val, 0])
    cmd = rigs.make_command(fr, sendtwice=twice, response=C.NumericResponse if query else None)
    sock = FakeSocket([reply, reply], 2 + bits // 8)
    saved = DS.socket
    DS.socket = types.SimpleNamespace(create_connection=lambda target: sock)
    try:
        st, r = call(DS.DaliServer().send, cmd)
    finally:
        DS.socket = saved
    want = [2, 0] + _bytes_of(x, bits)
    ctx.prove(len(sock.sent) == (2 if twice else 1) and all(bool(_eq_bytes(m, want)) for m in sock.sent),
              "request is not version=2, type=0, frame bytes (once / twice)", key="daliserver/tx")
    if not query:
        ctx.prove(st == "ok" and r is None, "non-query gave %s %r" % (st, r), key="daliserver/rx-nonquery")
        return "nonquery"
    if status == 0:
        ctx.prove(st == "ok" and isinstance(r, C.NumericResponse) and r.raw_value is None,
                  "status 0 (no answer) gave %r" % (r,), key="daliserver/rx-none")
        return "none"
    if status == 1:
        ctx.prove(st == "ok" and isinstance(r, C.NumericResponse) and r.raw_value is not None
                  and not r.raw_value.error and bool(E.eq(r.raw_value.as_integer, val)),
                  "status 1 (answer) gave %r" % (r,), key="daliserver/rx-value")
        return "value"
    if status == 255:
        ctx.prove(st == "ok" and r.raw_value is not None and r.raw_value.error,
                  "status 255 (garbled) gave %r" % (r,), key="daliserver/rx-error")
        return "error"
    ctx.prove(st == "exc" and isinstance(r, CommunicationError), "unknown status gave %s %r" % (st, r),
              key="daliserver/rx-unknown")
    return "unknown"


# ---------------------------------------------------------------------------------------------
# ATX LED hat

def h_atx(ctx, bits, twice):
    x, fr = _frame(ctx, bits)
    cmd = rigs.make_command(fr, sendtwice=twice)
    import types as _t
    quiet = _t.SimpleNamespace(debug=lambda *a, **k: None, info=lambda *a, **k: None, error=lambda *a, **k: None,
                               exception=lambda *a, **k: None, warning=lambda *a, **k: None)
    drv = ATX.DaliHatSerialDriver(port="/dev/verif-no-such-port", LOG=quiet)
    st, line = call(drv.construct, cmd)
    if st == "exc":
        ctx.fail("construct raised %r" % (line,), key="atx/raised")
        return "raised"
    prefix = {16: "h", 24: "l"}[bits]
    if twice and bits == 16:
        prefix = "t"
    want = (prefix + "".join("{:02X}".format(b) for b in _bytes_of(x, bits)) + "\n")
    got = line.decode("ascii") if isinstance(line, bytes) else line
    ctx.prove(ctx.text_equal(got, want), "line differs from '<prefix><hex bytes>\\n'", key="atx/line")
    # receive side: 'J' + two hex digits is a backward frame
    v = ctx.fresh("v", 0, 255)
    v = v if isinstance(v, int) else v.concretize()
    bf = drv.extract("J%02X" % v)
    ctx.prove(isinstance(bf, F.BackwardFrame) and bf.as_integer == v, "extract('J%02X') gave %r" % (v, bf),
              key="atx/extract")
    ctx.prove(drv.extract("N") is None, "extract('N') is not None", key="atx/extract-n")
    return "ok"


# ---------------------------------------------------------------------------------------------
# legacy drivers

def h_legacy_tridonic(ctx, twice):
    x, fr = _frame(ctx, 16)
    drv = LT.TridonicDALIUSBDriver()
    sn0 = ctx.fresh("sn", 1, 255)
    drv._next_sn = sn0
    cmd = rigs.make_command(fr, sendtwice=twice)
    st, data = call(drv.construct, cmd)
    if st == "exc":
        ctx.fail("construct raised %r" % (data,), key="ltridonic/raised")
        return "raised"
    ctx.prove(_eq_bytes(data, WF.legacy_tridonic_packet(sn0, (x >> 8) & 0xFF, x & 0xFF)),
              "packet differs from 12 sn 00 03 00 00 ad cm + padding", key="ltridonic/tx")
    for bits in (24, 8, 17):
        st2, r2 = call(drv.construct, rigs.make_command(F.ForwardFrame(bits, 0)))
        ctx.prove(st2 == "exc", "%d-bit frame accepted" % bits, key="ltridonic/width")
    # receive side
    dr = ctx.fresh("dr", 0, 255)
    ty = ctx.fresh("ty", 0, 255)
    ad, cm = ctx.fresh("ad", 0, 255), ctx.fresh("cm", 0, 255)
    pkt = rigs.mkbytes([dr, ty, 0, 0, ad, cm, 0, 0, 3] + [0] * 55)
    st3, f3 = call(drv.extract, pkt)
    if st3 == "exc":
        ctx.fail("extract raised %r" % (f3,), key="ltridonic/extract-raised")
        return "extract-raised"
    if dr == 0x11 and (ty == 0x73 or ty == 0x74):
        ctx.prove(isinstance(f3, F.ForwardFrame) and len(f3) == 16 and bool(E.eq(f3.as_integer, (ad << 8) | cm)),
                  "observed forward frame decoded as %r" % (f3,), key="ltridonic/rx-forward")
    elif dr == 0x12 and ty == 0x72:
        ctx.prove(isinstance(f3, F.BackwardFrame) and bool(E.eq(f3.as_integer, cm)),
                  "answer decoded as %r" % (f3,), key="ltridonic/rx-backward")
    elif dr == 0x12 and ty == 0x71:
        ctx.prove(f3 is LT.DALI_USB_NO_RESPONSE, "no-response report decoded as %r" % (f3,), key="ltridonic/rx-none")
    else:
        ctx.prove(f3 is None, "other report decoded as %r" % (f3,), key="ltridonic/rx-other")
    return "ok"


def h_legacy_tridonic_sn(ctx):
    drv = LT.TridonicDALIUSBDriver()
    drv._next_sn = ctx.fresh("next", 1, 256)
    a, b = drv._get_sn(), drv._get_sn()
    ctx.prove(E.and_(E.between(1, a, 255), E.between(1, b, 255)), "sequence number outside 1..255",
              key="ltridonic/sn-range")
    ctx.prove(E.ne(a, b), "the same sequence number twice in a row", key="ltridonic/sn-repeat")
    return "ok"


def h_legacy_hasseb(ctx, twice, query):
    x, fr = _frame(ctx, 16)
    drv = LH.HassebDALIUSBDriver()
    sn0 = ctx.fresh("sn", 0, 255)
    drv.sn = sn0
    cmd = rigs.make_command(fr, sendtwice=twice, response=C.Response if query else None)
    st, data = call(drv.construct, cmd)
    if st == "exc":
        ctx.fail("construct raised %r" % (data,), key="lhasseb/raised")
        return "raised"
    sn = drv.sn
    ctx.prove(E.and_(E.between(1, sn, 255), E.ne(sn, sn0)), "sequence number leaves 1..255 or repeats",
              key="lhasseb/sn")
    ctx.prove(_eq_bytes(data, WF.legacy_hasseb_packet(sn, (x >> 8) & 0xFF, x & 0xFF, query, twice)),
              "packet differs from AA 07 sn 10 reply settle twice a b 00", key="lhasseb/tx")
    return "ok"


def h_unipi(ctx, bits, twice):
    x, fr = _frame(ctx, bits)
    drv = UP.UnipiDALIDriver()
    cmd = rigs.make_command(fr, sendtwice=twice)
    st, regs = call(drv.construct, cmd)
    if st == "exc":
        ctx.fail("construct raised %r" % (regs,), key="unipi/raised")
        return "raised"
    fb = _bytes_of(x, bits)
    opt = (2 if bits == 16 else 3) | (8 if twice else 0)
    if bits == 16:
        want = (opt << 8, (fb[0] << 8) | fb[1])
    else:
        want = ((opt << 8) | fb[0], (fb[1] << 8) | fb[2])
    ctx.prove(len(regs) == 2 and E.and_(E.eq(regs[0], want[0]), E.eq(regs[1], want[1])),
              "registers differ from (option/length code [+ first byte], remaining frame bytes)", key="unipi/tx")
    for b in (8, 17, 25, 32):
        st2, r2 = call(drv.construct, rigs.make_command(F.ForwardFrame(b, 0)))
        ctx.prove(st2 == "exc", "%d-bit frame accepted" % b, key="unipi/width")
    v = ctx.fresh("v", 0, 0xFFFF)
    bf = drv.extract((0x100, v & 0xFF))
    ctx.prove(isinstance(bf, F.BackwardFrame) and bool(E.eq(bf.as_integer, v & 0xFF)), "answer register decoded as %r"
              % (bf,), key="unipi/rx-backward")
    ff = drv.extract((0x200, v))
    ctx.prove(isinstance(ff, F.ForwardFrame) and bool(E.eq(ff.as_integer, v)), "forward register decoded as %r"
              % (ff,), key="unipi/rx-forward")
    return "ok"


def h_serial_rx(ctx, which):
    """Receive side of the serial gateways: the answer packet with a symbolic byte must come
    back from send() as exactly that backward frame, a silent bus as 'no answer'."""
    from harness import c16_pairing
    return c16_pairing.h_serial(ctx, which, 1, "plain")


def h_tridonic_rx(ctx):
    from harness import c16_pairing
    return c16_pairing.h_tridonic_single(ctx, 1)


# ---------------------------------------------------------------------------------------------
# two commands of (possibly) different widths through the same driver object: nothing of the first
# packet may show up in the second (buffers kept between sends)

def h_tridonic_tx2(ctx, bits1, bits2, twice2):
    seq0 = ctx.fresh("seq0", 1, 255)
    with rigs.HidRig(ctx, seq0) as rig:
        x1 = ctx.fresh("x1", 0, (1 << bits1) - 1)
        x2 = ctx.fresh("x2", 0, (1 << bits2) - 1)
        c1 = rigs.make_command(F.ForwardFrame(bits1, x1))
        c2 = rigs.make_command(F.ForwardFrame(bits2, x2), sendtwice=twice2)
        out = {}

        async def main(loop):
            d = await rigs.tridonic_connect(loop, rig)
            n0 = len(rig.os.writes)

            def gateway(data):
                if data[0] != 0x12:
                    return
                s = data[1]
                two = len(rig.os.writes) - n0 == 2 and twice2
                wide = (bits1 if len(rig.os.writes) - n0 == 1 else bits2) == 24
                echo = rigs.tridonic_report(0x12, 0x76 if wide else 0x73, [0, 0, 0xFE, 0x00], s)
                for _ in range(2 if two else 1):
                    loop.call_soon(rig.deliver, loop, d, echo)
                loop.call_soon(rig.deliver, loop, d, rigs.tridonic_report(0x12, 0x71, [0, 0, 0, 0], s))
            rig.os.on_write = gateway
            await asyncio.wait_for(d.send(c1), 5)
            await asyncio.wait_for(d.send(c2), 5)
            out["writes"] = rig.os.writes[n0:]
            d.disconnect()
            await vloop.settle(2)
        st, r = call(vloop.run, main)
        if st == "exc":
            ctx.fail("send raised %r" % (r,), key="tridonic/tx2-raised:" + type(r).__name__)
            return "raised"
        w = out["writes"]
        ctx.prove(len(w) == 2, "%d reports written for two commands" % len(w), key="tridonic/tx2-count")
        if len(w) == 2:
            s1 = w[0][1]
            ctx.prove(_eq_bytes(w[0], WF.tridonic_tx_report(s1, x1, bits1, False)),
                      "first report differs from the send format", key="tridonic/tx2-first")
            s2 = w[1][1]
            ctx.prove(E.and_(E.between(1, s1, 255), E.between(1, s2, 255), E.ne(s2, s1)),
                      "sequence numbers out of range or repeated immediately", key="tridonic/tx2-seq")
            ctx.prove(_eq_bytes(w[1], WF.tridonic_tx_report(s2, x2, bits2, twice2)),
                      "second report (after a %d-bit command) differs from the send format" % bits1,
                      key="tridonic/tx2-second")
        return "ok"


def h_serial_tx2(ctx, which, bits1, bits2, twice2):
    x1 = ctx.fresh("x1", 0, (1 << bits1) - 1)
    x2 = ctx.fresh("x2", 0, (1 << bits2) - 1)
    c1 = rigs.make_command(F.ForwardFrame(bits1, x1))
    c2 = rigs.make_command(F.ForwardFrame(bits2, x2), sendtwice=twice2)
    out = {}

    async def main(loop):
        if which == "luba":
            d, p, t = rigs.luba_driver(loop)

            def gateway(data):
                for _ in range(2 if (twice2 and len(t.writes) == 2) else 1):
                    loop.call_soon(p.data_received, rigs.luba_event_tx(5, [0xFE, 0x00]))
        else:
            d, p, t = rigs.sci_driver(loop)

            def gateway(data):
                loop.call_soon(p.data_received, rigs.sci_frame(0x10, 0, 0, 0))
        t.on_write = gateway
        await asyncio.wait_for(d.send(c1), 5)
        await asyncio.wait_for(d.send(c2), 5)
        out["w"] = list(t.writes)
    st, r = call(vloop.run, main)
    if st == "exc":
        ctx.fail("send raised %r" % (r,), key=which + "/tx2-raised:" + type(r).__name__)
        return "raised"
    w = out["w"]
    ctx.prove(len(w) == 2, "%d packets written for two commands" % len(w), key=which + "/tx2-count")
    if len(w) != 2:
        return "count"
    for k, (pkt, x, bits, twice) in enumerate(((w[0], x1, bits1, False), (w[1], x2, bits2, twice2))):
        tag = "%s/tx2-%s" % (which, "first" if k == 0 else "second")
        if which == "luba":
            if len(pkt) != 11:
                ctx.fail("packet length %d" % len(pkt), key=tag + "-len")
                continue
            prio = pkt[5] & 0x07
            ctx.prove(_eq_bytes(pkt, WF.luba_tx_frame(_bytes_of(x, bits), twice, prio)),
                      "packet differs from the LUBA 'add DALI frame to TX buffer' format", key=tag + "-bytes")
        else:
            if len(pkt) != 5:
                ctx.fail("packet length %d" % len(pkt), key=tag + "-len")
                continue
            fb = _bytes_of(x, bits)
            ctrl = 0x80 | 0x20 | (0x10 if twice else 0) | {16: 3, 24: 8}[bits]
            ctx.prove(E.and_(E.eq(pkt[0], ctrl), E.eq(pkt[4], pkt[0] ^ pkt[1] ^ pkt[2] ^ pkt[3])),
                      "control byte or checksum wrong", key=tag + "-control")
            if bits == 24:
                ctx.prove(_eq_bytes(pkt[1:4], fb), "24-bit frame not in hi/mi/lo", key=tag + "-data24")
            else:
                ctx.prove(E.or_(_eq_bytes(pkt[1:4], fb + [0]), _eq_bytes(pkt[1:4], [0] + fb)),
                          "16-bit frame bytes not contiguous / stale byte in the data field", key=tag + "-data16")
    return "ok"


def _two_receivers(ctx, which):
    from harness.c19_deframe import h_two_receivers
    return h_two_receivers(ctx, which)


def h_daliserver_stream(ctx):
    """Two commands over one (or one each) daliserver connection: every request is four bytes, every status
    message is consumed by the command it answers (shared with the pairing check)."""
    from harness.c16_pairing import h_daliserver_history
    return h_daliserver_history(ctx, 2)


def cases(tier):
    cs = [Case("luba-rx", h_serial_rx, {"which": "luba"}), Case("sci-rx", h_serial_rx, {"which": "sci"}),
          Case("tridonic-rx", h_tridonic_rx, {}, install=rigs.install_tridonic_structs),
          Case("tridonic-seq", h_tridonic_seq, {}), Case("tridonic-width", h_tridonic_width, {}, width=128,
                                                         install=rigs.install_tridonic_structs),
          Case("hasseb-width", h_hasseb_width, {}, width=128, install=rigs.install_tridonic_structs),
          Case("luba-width", h_serial_width, {"which": "luba"}, width=128),
          Case("sci-width", h_serial_width, {"which": "sci"}, width=128),
          Case("legacy-tridonic-sn", h_legacy_tridonic_sn, {}),
          # the same refusals when the frame arrives inside a sequence
          Case("tridonic-width-seq", h_tridonic_width, {"via": "sequence"}, width=128,
               install=rigs.install_tridonic_structs),
          Case("hasseb-width-seq", h_hasseb_width, {"via": "sequence"}, width=128,
               install=rigs.install_tridonic_structs),
          # receive side with two gateways of a kind open at once: each packet decodes to the frame it denotes
          Case("luba-rx-two-gateways", _two_receivers, {"which": "luba"}),
          Case("sci-rx-two-gateways", _two_receivers, {"which": "sci"}),
          Case("tridonic-width-noexc", h_tridonic_width, {"via": "send-noexc"}, width=128,
               install=rigs.install_tridonic_structs),
          Case("hasseb-width-noexc", h_hasseb_width, {"via": "send-noexc"}, width=128,
               install=rigs.install_tridonic_structs),
          Case("luba-width-seq", h_serial_width, {"which": "luba", "via": "sequence"}, width=128),
          Case("sci-width-seq", h_serial_width, {"which": "sci", "via": "sequence"}, width=128)]
    for b1, b2, tw in ((24, 16, False), (16, 24, False), (24, 16, True), (16, 16, False)):
        cs.append(Case("tridonic-tx2-%d-%d-%d" % (b1, b2, tw), h_tridonic_tx2,
                       {"bits1": b1, "bits2": b2, "twice2": tw}, install=rigs.install_tridonic_structs))
        for which in ("luba", "sci"):
            cs.append(Case("%s-tx2-%d-%d-%d" % (which, b1, b2, tw), h_serial_tx2,
                           {"which": which, "bits1": b1, "bits2": b2, "twice2": tw}))
    from spec import iec_tables as T
    for i, row in enumerate(T.ROWS):
        if row[2] in ("dapc", "std", "special") and (tier != "quick" or row[0] == 102):
            cs.append(Case("luba-prio-%d-%s" % (row[0], row[1]), h_luba_prio, {"idx": i}))
    for twice in (False, True):
        cs.append(Case("hasseb-tx-%d" % twice, h_hasseb_tx, {"twice": twice}, install=rigs.install_tridonic_structs))
        cs.append(Case("legacy-tridonic-%d" % twice, h_legacy_tridonic, {"twice": twice}))
        for query in (False, True):
            cs.append(Case("legacy-hasseb-%d%d" % (twice, query), h_legacy_hasseb, {"twice": twice, "query": query}))
        for bits in (16, 24):
            for query in (False, True):
                cs.append(Case("tridonic-tx-%d-%d%d" % (bits, twice, query), h_tridonic_tx,
                               {"bits": bits, "twice": twice, "query": query},
                               install=rigs.install_tridonic_structs))
                cs.append(Case("daliserver-%d-%d%d" % (bits, twice, query), h_daliserver,
                               {"bits": bits, "twice": twice, "query": query}))
            if bits == 16 and not twice:
                cs.append(Case("daliserver-stream", h_daliserver_stream, {}))
            cs.append(Case("luba-tx-%d-%d" % (bits, twice), h_luba_tx, {"bits": bits, "twice": twice}))
            cs.append(Case("sci-tx-%d-%d" % (bits, twice), h_sci_tx, {"bits": bits, "twice": twice}))
            cs.append(Case("atx-%d-%d" % (bits, twice), h_atx, {"bits": bits, "twice": twice}))
            cs.append(Case("unipi-%d-%d" % (bits, twice), h_unipi, {"bits": bits, "twice": twice}))
    return cs
