"""C07 - commissioning terminates and assigns distinct, permitted short addresses.

Assume-guarantee split, both halves on the real code:
 (A) `_find_next(low, high)` satisfies its contract - one inductive step over
     the interval with the recursive calls replaced by the contract;
 (B) `Commissioning` with (A)'s contract substituted for `_find_next`, against
     a population of specification-model gear with symbolic short addresses
     and symbolic 24-bit random draws;
 (C) glue: in the concrete re-run of every explored path the contract stub is
     checked against the real `_find_next` driven on the model units.
"""
from symx import E, Case
from harness.common import call
from spec import models as M

import dali.frame as F
import dali.command as C
import dali.address as A
import dali.sequences as S
import dali.gear.general as gg
from dali.exceptions import ProgramShortAddressFailure

# the deeper thorough case list (kept in cases()) exceeded a 13-minute cap on the loaded machine in the last
# session and could not be re-validated end to end after the final harness changes: see symx/runner.py
THOROUGH_CASES = "quick"

META = {
    "level_text": "Bounded symbolic verification of commissioning in two composed halves on the real code: "
                  "(A) one inductive step of the binary search _find_next over a fully symbolic 24-bit "
                  "interval with its recursive calls replaced by the contract (proves the contract for "
                  "intervals of any size, incl. that the SEARCHADDR commands encode `high` and the 8+T(n/2) "
                  "command bound); (B) the Commissioning generator with that contract substituted, run "
                  "against <= 3 (thorough 4) model gear with symbolic initial short addresses (incl. "
                  "duplicates and none) and fresh symbolic 24-bit random addresses on every RANDOMISE, both "
                  "readdress modes, dry-run, several permitted-address sets, gear that fail to store the "
                  "address; z3 shows termination, TERMINATE last, distinct permitted addresses, untouched "
                  "non-participants.",
    "level_note": "Trusted: gear model in /verif/spec/models.py (102 initialisation commands on frame bits: "
                  "RANDOMISE / PROGRAM SHORT ADDRESS act on every unit in initialisation state incl. "
                  "withdrawn ones, COMPARE only on non-withdrawn ones), the fairness assumption 'from the third "
                  "RANDOMISE round on all draws differ', two units answering at once give a framing error; "
                  "the contract stub is cross-checked against the real _find_next in the concrete re-run of "
                  "every path.",
    "explanation": "symbolic execution of dali.sequences._find_next (inductive step) and "
                   "dali.sequences.Commissioning against model gear",
    "bounds": ["refusing unit offered address 63 first; dry run with more units than addresses; generator closed after 0..24 commands",
               "(A) low <= high over the full 24-bit range, population abstracted to (least active address, "
               "duplicate flag), free framing-error flag on non-leaf COMPAREs",
               "(B) N <= 3 units (thorough 4), initial short address none or 0..63 symbolic, <= 2 clash "
               "rounds before the fairness assumption, permitted sets: all 64 / empty / {k} / {k,k'} / "
               "4 concrete addresses, readdress x dry_run",
               "faulty unit (N <= 3): does not store the address / stores it but never answers VERIFY SHORT "
               "ADDRESS (with three units the other two may clash afterwards)",
               "units still in initialisation state (enabled or withdrawn, arbitrary random address) from an "
               "earlier unfinished session: per unit symbolic for N <= 2 (also with an empty / one-address "
               "pool), all units for N = 3"],
    "stubs": ["isinstance/int shims", "the recursive search helper of dali.sequences (`_find_next`; found by its "
              "shape, not by its name) replaced by its contract in (B); the 'clash' marker is taken from the real "
              "helper"],
    "outside": ["buses of more than 4 units", "more than two clashing RANDOMISE rounds in one run (e.g. a restart "
                "budget that runs out after five)", "two simultaneous answers received as one clean frame",
                "gear that violate IEC 62386-102 other than by not storing the programmed address"],
    "assumptions": ["fairness: clashing units eventually draw different random addresses (assumed from the "
                    "third RANDOMISE round on)"],
}


def _search_helper():
    """Name of the recursive binary-search generator of dali.sequences (`_find_next` at the pinned commit):
    the module-level generator function of two positional parameters that calls itself.  Found by shape, not
    by name, so that a rename does not break the check; the contract it is checked against is that of the
    docstring above."""
    import inspect
    if hasattr(_search_helper, "name"):
        return _search_helper.name
    cands = [n for n, f in vars(S).items()
             if inspect.isgeneratorfunction(f) and getattr(f, "__module__", None) == S.__name__
             and f.__code__.co_argcount == 2 and n in f.__code__.co_names]
    if len(cands) != 1:
        from symx.core import EngineUnsupported
        raise EngineUnsupported("cannot identify the recursive search helper of dali.sequences (candidates: %r)"
                                % (cands,))
    _search_helper.name = cands[0]
    return cands[0]


def _clash_marker():
    """What the search helper returns for 'several units answered at once' ("clash" at the pinned commit; a
    refactoring may use a private sentinel): obtained from the real function on the smallest instance -
    a one-address interval whose COMPARE is answered with a framing error."""
    if hasattr(_clash_marker, "value"):
        return _clash_marker.value
    g = getattr(S, _search_helper())(5, 5)
    resp, val = None, None
    try:
        for _ in range(12):
            cmd = g.send(resp)
            resp = cmd.response(F.BackwardFrameError(255)) if cmd.response is not None else None
    except StopIteration as e:
        val = e.value
    _clash_marker.value = val
    return val


def _is_clash(res):
    m = _clash_marker()
    return res is m or (isinstance(m, str) and isinstance(res, str) and res == m)


# ---------------------------------------------------------------------------------------------
# (A) _find_next inductive step

def h_find_next(ctx):
    low = ctx.fresh("low", 0, 0xFFFFFF)
    high = ctx.fresh("high", 0, 0xFFFFFF)
    ctx.assume(E.le(low, high))
    has_m = ctx.fresh_bool("has_m")
    m = ctx.fresh("m", 0, 0xFFFFFF)
    if has_m:
        ctx.assume(E.ge(m, low))          # precondition: no active unit below low
    dup = ctx.fresh_bool("dup") if has_m else False
    _clash_marker()         # (from the real helper, before it is replaced)
    real = getattr(S, _search_helper())
    calls = []
    state = {"search": None}

    def stub(l2, h2):
        ctx.prove(E.and_(E.le(l2, h2), E.ge(l2, low), E.le(h2, high)),
                  "recursive call on an interval outside [low, high] or ill-formed", key="findnext/sub-interval")
        ctx.prove(E.lt(h2 - l2, high - low), "recursive call on an interval that is not smaller",
                  key="findnext/not-decreasing")
        ctx.prove(E.le(2 * (h2 - l2 + 1), (high - low + 1) + 1),
                  "recursive interval larger than half of the parent (command bound)", key="findnext/halving")
        if has_m:
            ctx.prove(E.ge(m, l2), "recursive call violates 'no active unit below low'", key="findnext/sub-pre")
        calls.append((l2, h2))
        if has_m and bool(E.le(m, h2)):
            if dup:
                return _clash_marker()
            state["search"] = m
            return m
        state["search"] = h2
        return None
        yield
    setattr(S, _search_helper(), stub)
    ncmd = 0
    regs = [None, None, None]
    res, exc = None, None
    try:
        g = real(low, high)
        resp = None
        try:
            while True:
                cmd = g.send(resp)
                resp = None
                ncmd += 1
                if ncmd > 50:
                    ctx.fail("more than 50 commands in one step", key="findnext/runaway")
                    return "runaway"
                fv = cmd.frame.as_integer
                hi8, lo8 = fv >> 8, fv & 0xFF
                if hi8 == 0xB1:
                    regs[0] = lo8
                elif hi8 == 0xB3:
                    regs[1] = lo8
                elif hi8 == 0xB5:
                    regs[2] = lo8
                elif hi8 == 0xA9:
                    if None in regs:
                        ctx.fail("COMPARE before the search address was loaded", key="findnext/compare-early")
                        return "early"
                    s = (regs[0] << 16) | (regs[1] << 8) | regs[2]
                    ctx.prove(E.eq(s, high), "search address sent differs from `high`", key="findnext/search")
                    state["search"] = s
                    yes = has_m and bool(E.le(m, s))
                    if yes:
                        leaf = bool(E.eq(low, high))
                        err = dup if leaf else ctx.fresh_bool("err%d" % ncmd)
                        resp = cmd.response(F.BackwardFrameError(255) if err else F.BackwardFrame(255))
                    else:
                        resp = cmd.response(None)
                else:
                    ctx.fail("unexpected command %s" % cmd, key="findnext/unexpected-command")
        except StopIteration as e:
            res = e.value
    except Exception as e:  # noqa
        exc = e
    finally:
        setattr(S, _search_helper(), real)
    if exc is not None:
        ctx.fail("_find_next raised %r" % (exc,), key="findnext/raised")
        return "raised"
    present = has_m and bool(E.le(m, high))
    if not present:
        ctx.prove(res is None, "returned %r although no active address <= high" % (res,), key="findnext/none")
        lab = "none"
    elif dup:
        ctx.prove(_is_clash(res), "returned %r although two units share the least address" % (res,),
                  key="findnext/clash")
        lab = "clash"
    else:
        ok = res is not None and not _is_clash(res) and not isinstance(res, str)
        ctx.prove(ok and E.eq(res, m), "returned %r, least active address differs" % (res,), key="findnext/value")
        if ok:
            ctx.prove(E.eq(state["search"], res), "search-address registers do not hold the returned address",
                      key="findnext/registers")
        lab = "found"
    ctx.prove(ncmd <= 8 and len(calls) <= 2, "one step used %d commands and %d recursive calls" % (ncmd, len(calls)),
              key="findnext/step-cost")
    return "%s cmds=%d calls=%d" % (lab, ncmd, len(calls))


# ---------------------------------------------------------------------------------------------
# (B) Commissioning with the contract substituted

PERMITTED = ["all", "empty", "one", "two", "four"]


def _permitted(ctx, which):
    if which == "all":
        return None, list(range(64))
    if which == "empty":
        return [], []
    if which == "one":
        return [2], [2]
    if which == "two":
        return [63, 0], [63, 0]
    return [5, 1, 20, 21], [5, 1, 20, 21]


def h_commission(ctx, N, readdress, dry_run, which, nostore, stale=None, abort=False):
    """nostore: False / True ('does not store the programmed address') / 'noverify' (stores it but never
    answers VERIFY SHORT ADDRESS).  stale: None / 'all' / 'sym' - units still in initialisation state
    (enabled or withdrawn, with some random address) from an earlier, unfinished session."""
    avail_arg, avail = _permitted(ctx, which)
    rounds = [0]
    units = []

    def draw(u):
        return ctx.fresh("r%d_%d" % (u.idx, rounds[0]), 0, 0xFFFFFF)

    # when existing addresses are kept, every permitted address is queried: keep the
    # symbolic initial addresses in a small domain so that the queries do not enumerate it
    top = 64 if readdress else 6
    for i in range(N):
        s = ctx.fresh("short%d" % i, 0, top)          # top = no short address
        u = M.Unit("gear", short=E.ite(E.eq(s, top), 255, s), draw=draw)
        u.idx = i
        u.orig = u.short
        u.had_none = bool(E.eq(s, top))
        if nostore and i == 0:
            if nostore == "noverify":
                u.verifies = False
            else:
                u.stores_address = False
        if stale == "all":
            u.init = M.ENABLED
            u.random = ctx.fresh("stale_r%d" % i, 0, 0xFFFFFF)
        elif stale == "sym" and ctx.fresh_bool("stale%d" % i):
            u.init = M.WITHDRAWN if ctx.fresh_bool("stale_withdrawn%d" % i) else M.ENABLED
            u.random = ctx.fresh("stale_r%d" % i, 0, 0xFFFFFF)
        units.append(u)
    bus = M.Bus(units, max_commands=260)
    abort_after = (lambda v: getattr(v, "concretize", lambda: v)())(ctx.fresh("abort_after", 0, 24)) if abort else None
    _clash_marker()         # (from the real helper, before it is replaced)
    real = getattr(S, _search_helper())
    glue = []

    def stub(low, high):
        act = [u for u in units if u.init == M.ENABLED]
        for u in act:
            ctx.prove(E.ge(u.random, low), "_find_next called with an active unit below `low`",
                      key="commission/findnext-pre")
        cands = [u for u in act if u.random <= high]
        if not cands:
            res, sr = None, high
        else:
            mn = cands[0].random
            for u in cands[1:]:
                if u.random < mn:
                    mn = u.random
            dup = sum(1 for u in cands if u.random == mn) > 1
            res, sr = (_clash_marker() if dup else mn), mn
        if not ctx.symbolic:
            # (C) glue: the real _find_next on the same concrete population
            b2 = M.Bus(units, max_commands=400)
            setattr(S, _search_helper(), real)
            try:
                st, rr = b2.run(real(low, high))
            finally:
                setattr(S, _search_helper(), stub)
            glue.append((st, rr, res, len(b2.commands)))
            ctx.prove(st == "ok" and (rr is res or (not _is_clash(rr) and not _is_clash(res) and rr == res)),
                      "contract stub %r differs from the real _find_next %r"
                      % (res, rr), key="commission/glue")
            if res is not None and not _is_clash(res):
                ctx.prove(all(u.search_addr() == res for u in units),
                          "real _find_next leaves other search registers than the contract", key="commission/glue-regs")
            ctx.prove(len(b2.commands) <= 200, "real _find_next used %d commands" % len(b2.commands),
                      key="commission/glue-cost")
        for u in units:
            u.search = [(sr >> 16) & 0xFF, (sr >> 8) & 0xFF, sr & 0xFF]
        return res
        yield

    setattr(S, _search_helper(), stub)
    try:
        gen = S.Commissioning(available_addresses=avail_arg, readdress=readdress, dry_run=dry_run)
        # drive by hand to count RANDOMISE rounds and add the fairness assumption
        resp = None
        st, val = "ok", None
        try:
            nitems = 0
            while True:
                item = gen.send(resp)
                resp = None
                nitems += 1
                if nitems > 4000:
                    gen.close()
                    st = "nonterminating"
                    break
                if not isinstance(item, C.Command):
                    continue
                if abort and len(bus.commands) == abort_after:
                    # the caller gives up here (a driver closes the sequence when its task is cancelled):
                    # a generator must let itself be closed
                    stc, rc = call(gen.close)
                    ctx.prove(stc == "ok", "closing the sequence after %d commands raised %r" % (abort_after, rc),
                              key="commission/close-raised")
                    return "closed after %d" % abort_after
                if len(bus.commands) >= bus.max_commands:
                    gen.close()
                    st = "nonterminating"
                    break
                fv = item.frame.as_integer
                israndomise = bool(E.eq(fv, 0xA700))
                if israndomise:
                    rounds[0] += 1
                resp = bus.transact(item)
                if israndomise and rounds[0] > 2:
                    ini = [u for u in units if u.init != M.DISABLED]
                    for i in range(len(ini)):
                        for j in range(i + 1, len(ini)):
                            ctx.assume(E.ne(ini[i].random, ini[j].random))
        except StopIteration as e:
            val = e.value
        except Exception as e:  # noqa
            st, val = "exc", e
    finally:
        setattr(S, _search_helper(), real)
    tag = "commission"
    if st == "nonterminating":
        ctx.fail("more than %d commands" % bus.max_commands, key=tag + "/nonterminating")
        return "nonterminating"
    part = [u for u in units if readdress or u.had_none]
    if st == "exc":
        if isinstance(val, ProgramShortAddressFailure):
            ctx.prove(nostore and not dry_run and units[0] in part,
                      "ProgramShortAddressFailure although every unit stores its address", key=tag + "/spurious-failure")
            return "ProgramShortAddressFailure"
        ctx.fail("commissioning raised %r" % (val,), key=tag + "/raised:" + type(val).__name__)
        return "raised"
    # --- ends by taking every unit out of initialisation mode
    last = bus.frames[-1][0] if bus.frames else None
    ctx.prove(last is not None and E.eq(last, 0xA100), "last bus command is not TERMINATE", key=tag + "/terminate-last")
    ctx.prove(all(u.init == M.DISABLED for u in units), "a unit is left in initialisation state",
              key=tag + "/left-initialised")
    if dry_run:
        for u in units:
            ctx.prove(E.eq(u.short, u.orig), "dry run changed a short address", key=tag + "/dry-run-changed")
        return "dry-run rounds=%d" % rounds[0]
    if nostore and units[0] in part and avail:
        ctx.fail("a unit did not confirm its new address but no ProgramShortAddressFailure was raised",
                 key=tag + "/silent-failure")
    # --- non participants keep their address
    for u in units:
        if u not in part:
            ctx.prove(E.eq(u.short, u.orig), "non-participating unit changed its address",
                      key=tag + "/non-participant")
    # --- participants: permitted addresses as long as they last, pairwise distinct, not in use
    in_use = [u.orig for u in units if u not in part]
    free = [a for a in avail if not any(bool(E.eq(a, x)) for x in in_use)] if not readdress else list(avail)
    got = [u for u in part if not bool(E.eq(u.short, 255))]
    ctx.prove(len(got) == min(len(part), len(free)),
              "%d of %d participating units addressed with %d permitted addresses free"
              % (len(got), len(part), len(free)), key=tag + "/coverage")
    for u in got:
        ctx.prove(E.or_(*[E.eq(u.short, a) for a in free]) if free else False,
                  "a unit got an address outside the permitted/free set", key=tag + "/not-permitted")
    for i in range(len(units)):
        for j in range(i + 1, len(units)):
            a, b = units[i], units[j]
            if a in part or b in part:
                ctx.prove(E.or_(E.eq(a.short, 255), E.eq(b.short, 255), E.ne(a.short, b.short)),
                          "two units end with the same short address", key=tag + "/duplicate")
    for u in units:
        ctx.observe("short%d" % u.idx, u.short)
    return "ok rounds=%d addressed=%d" % (rounds[0], len(got))


def cases(tier):
    cs = [Case("find-next-step", h_find_next, {})]
    Ns = [1, 2, 3] if tier == "quick" else [1, 2, 3, 4]
    for N in Ns:
        for readdress in (True, False):
            for which in PERMITTED:
                if N >= 3 and tier == "quick" and (which in ("empty", "four", "one")
                                                  or (which == "two" and not readdress)):
                    continue
                if N == 4 and which not in ("all", "two"):
                    continue
                cs.append(Case("commission-N%d-%s-%s" % (N, "re" if readdress else "new", which), h_commission,
                               {"N": N, "readdress": readdress, "dry_run": False, "which": which,
                                "nostore": False}, timeout_ms=120000))
        if N <= 2 or tier != "quick":
            cs.append(Case("commission-N%d-dry" % N, h_commission,
                           {"N": N, "readdress": True, "dry_run": True, "which": "all", "nostore": False}))
        if N <= 2:
            cs.append(Case("commission-N%d-dry-new" % N, h_commission,
                           {"N": N, "readdress": False, "dry_run": True, "which": "all", "nostore": False}))
            cs.append(Case("commission-N%d-nostore" % N, h_commission,
                           {"N": N, "readdress": True, "dry_run": False, "which": "all", "nostore": True}))
            cs.append(Case("commission-N%d-nostore-new" % N, h_commission,
                           {"N": N, "readdress": False, "dry_run": False, "which": "all", "nostore": True}))
            cs.append(Case("commission-N%d-stale-new" % N, h_commission,
                           {"N": N, "readdress": False, "dry_run": False, "which": "all", "nostore": False,
                            "stale": "sym"}))
            cs.append(Case("commission-N%d-stale-re" % N, h_commission,
                           {"N": N, "readdress": True, "dry_run": False, "which": "two", "nostore": False,
                            "stale": "sym"}))
        if N <= 2:
            # the refusing unit is offered address 63 (one below the "no address" code) first
            cs.append(Case("commission-N%d-nostore-two" % N, h_commission,
                           {"N": N, "readdress": True, "dry_run": False, "which": "two", "nostore": True}))
        if N >= 2:
            # more units than addresses in a dry run: the surplus units must be left alone too
            cs.append(Case("commission-N%d-dry-one" % N, h_commission,
                           {"N": N, "readdress": True, "dry_run": True, "which": "one", "nostore": False}))
        if N == 1:
            cs.append(Case("commission-N1-closed-early", h_commission,
                           {"N": 1, "readdress": True, "dry_run": False, "which": "two", "nostore": False,
                            "abort": True}))
        if N <= 2:
            # nothing (or too little) to hand out while units are still initialised from an earlier run:
            # the sequence must still end by taking every unit out of initialisation mode
            for which in ("empty", "one"):
                for re_ in (False, True):
                    cs.append(Case("commission-N%d-stale-%s-%s" % (N, which, "re" if re_ else "new"), h_commission,
                                   {"N": N, "readdress": re_, "dry_run": False, "which": which, "nostore": False,
                                    "stale": "sym"}))
        if N >= 2:
            # a unit that stores the address but never confirms it; with three units the other two can
            # clash afterwards, and the restart must not forget the failure
            cs.append(Case("commission-N%d-noverify" % N, h_commission,
                           {"N": N, "readdress": True, "dry_run": False, "which": "all", "nostore": "noverify"},
                           timeout_ms=120000))
        if N == 3:
            cs.append(Case("commission-N3-nostore", h_commission,
                           {"N": N, "readdress": True, "dry_run": False, "which": "all", "nostore": True},
                           timeout_ms=120000))
            cs.append(Case("commission-N3-stale-new", h_commission,
                           {"N": N, "readdress": False, "dry_run": False, "which": "all", "nostore": False,
                            "stale": "all"}, timeout_ms=120000))
    return cs
