"""C13 - control-device sequences move multi-byte settings and scan results intact."""
from enum import IntFlag

from symx import E, Case
from harness.common import call
from spec import models as M

import dali.frame as F
import dali.command as C
import dali.address as A
import dali.device.general as dg
import dali.device.sequences as DS
import dali.device.helpers as helpers
import dali.device.pushbutton as pb
import dali.device.occupancy as occ
import dali.device.light as light
from dali.exceptions import DALISequenceError

# the deeper thorough case list (kept in cases()) could not be re-validated end to end after the final harness
# changes within the session: see symx/runner.py
THOROUGH_CASES = "quick"

META = {
    "level_text": "Bounded symbolic verification of query_input_value, SetEventFilters / QueryEventFilters, "
                  "SetEventSchemes and DeviceInstanceTypeMapper.autodiscover against a specification model of "
                  "103 control devices acting on frame bits: symbolic resolution 1..32 and answer bytes; "
                  "symbolic filter values of 8/16/24-bit wide filter enums with symbolic stale DTR0-2; "
                  "symbolic schemes -1..6; buses of <= 2 devices (thorough 3) with symbolic status byte, "
                  "instance counts, enabled flags and types; silence or framing error injected at each step.",
    "level_note": "Trusted: device/instance model in /verif/spec/models.py (103 commands on frame bits, "
                  "configuration commands only when sent twice), z3/cvc5, symx semantics incl. the SymFlag "
                  "stand-in for IntFlag values (each path re-run concretely with the real IntFlag).",
    "explanation": "symbolic execution of the real generator sequences driven by the model",
    "bounds": ["a discovery that gives up with DALISequenceError must have closed the quiescent bracket",
               "resolution 1..32 symbolic (given or reported by the unit)", "input bytes symbolic",
               "filter enums: push-button/occupancy/light (8 bit), user-defined 12-member (16 bit) and "
               "20-member (24 bit); value symbolic over the enum's width; plain ints 0..255",
               "stale DTR0/1/2 symbolic", "schemes -1..6 symbolic",
               "autodiscover: <= 2 devices (thorough 3), instance count 0..2 (thorough 0..4), symbolic status "
               "/ enabled / type, one fault (silence or framing error) at a symbolic step",
               "two runs in one process against independent units: input value (asked/asked, given/asked), "
               "24-bit filter set and query, scheme",
               "a healthy device reporting exactly 32 (and 31) instances, the first, last-but-one and last of "
               "them with symbolic enabled flag and type"],
    "stubs": ["isinstance/int shims", "EnumProxy for EventScheme inside dali.device.sequences",
              "SymFlag stand-in for IntFlag instances in symbolic mode"],
    "outside": ["resolutions outside 1..32", "instance counts > 4 in autodiscover (thorough bound)",
                "filter bits above the declared width of a narrow filter enum (reserved for that instance "
                "type; the library leaves the unit's upper filter bytes as they were)"],
    "assumptions": ["'healthy' device = status bits 2 (short address is MASK) and 6 (reset state) clear"],
}


class Filter16(dg.InstanceEventFilter):
    b0 = 1 << 0
    b1 = 1 << 1
    b2 = 1 << 2
    b3 = 1 << 3
    b4 = 1 << 4
    b5 = 1 << 5
    b6 = 1 << 6
    b7 = 1 << 7
    b8 = 1 << 8
    b9 = 1 << 9
    b10 = 1 << 10
    b11 = 1 << 11


Filter24 = dg.InstanceEventFilter("Filter24", {"f%d" % i: 1 << i for i in range(20)})

FILTERS = [("pushbutton", pb.InstanceEventFilter, 8, 8), ("occupancy", occ.InstanceEventFilter, 8, 5),
           ("light", light.InstanceEventFilter, 8, 1), ("user16", Filter16, 16, 12),
           ("user24", Filter24, 24, 20)]


def _install(inst):
    from symx import shims
    inst.set(DS, "EventScheme", shims.EnumProxy(dg.EventScheme))
    real_issubclass = issubclass

    def sym_issubclass(c, base):
        if isinstance(c, shims._SymFlagClass):
            return real_issubclass(c.enum_cls, base)
        return real_issubclass(c, base)
    inst.set(DS, "issubclass", sym_issubclass)
    # `filter_type=<module>`: the sequence takes module.InstanceEventFilter and calls it
    for mod in (pb, occ, light):
        inst.set(mod, "InstanceEventFilter", shims._SymFlagClass(mod.InstanceEventFilter))


def _mkflag(ctx, enum_cls, value):
    if ctx.symbolic:
        from symx import shims
        from symx.core import SymInt
        if type(value) is SymInt:
            return shims.SymFlag(enum_cls, value)
    return enum_cls(value)


def _flagval(x):
    from symx import shims
    if type(x) is shims.SymFlag:
        return x.value
    if type(x).__name__ == "SymInt":
        return x
    return int(x)


def _fault(ctx, nsteps):
    step = ctx.fresh_choice("fault_step", nsteps + 1)
    kind = (ctx.fresh_choice("fault_kind", 2) + 1) if step < nsteps else 0
    hit = []

    def fault(n, cmd, raw):
        if n == step and cmd.response is not None:
            hit.append(n)
            if kind == 1:
                return None
            return F.BackwardFrameError(raw.as_integer if raw is not None else 0)
        return raw
    return fault, hit


def _device(ctx, sa, inst_no, inst):
    u = M.Unit("device", short=sa, dtr0=ctx.fresh("dtr0", 0, 255), dtr1=ctx.fresh("dtr1", 0, 255),
               dtr2=ctx.fresh("dtr2", 0, 255))
    u.instances = {inst_no: inst}
    return u


# ---- query_input_value --------------------------------------------------------------------------

def h_input(ctx, ask):
    res = ctx.fresh("res", 1, 32)
    n = (res + 7) // 8
    if not isinstance(n, int):
        n = n.concretize()
    bs = [ctx.fresh("y%d" % i, 0, 255) for i in range(n)]
    sa, ino = 5, 3
    inst = M.Instance(itype=2, resolution=res)
    inst.bytes_ = bs
    u = _device(ctx, sa, ino, inst)
    fault, hit = _fault(ctx, n + (1 if ask else 0))
    bus = M.Bus([u], fault=fault)
    gen = DS.query_input_value(A.DeviceShort(sa), A.InstanceNumber(ino), None if ask else res)
    st, r = bus.run(gen)
    if hit:
        ctx.prove(st == "exc" and isinstance(r, DALISequenceError),
                  "fault at step %d gave %s %r" % (hit[0], st, r), key="input/fault-not-reported")
        return "fault"
    if st != "ok":
        ctx.fail("query_input_value: %s %r" % (st, r), key="input/raised")
        return "raised"
    acc = 0
    for y in bs:
        acc = (acc << 8) | y
    want = acc >> (8 * n - res)
    ctx.prove(E.eq(r, want), "reassembled value differs from the top `resolution` bits of the answers",
              key="input/value")
    ctx.prove(len(bus.commands) == n + (1 if ask else 0), "unexpected number of queries", key="input/count")
    ctx.observe("value", r)
    return "n=%d" % n


# ---- event filters ------------------------------------------------------------------------------------

def h_set_filter(ctx, fi, plain_int):
    name, enum_cls, width, nbits = FILTERS[fi]
    if plain_int:
        v = ctx.fresh("v", 0, 255)
        fv = v
        width = 8
    else:
        v = ctx.fresh("v", 0, (1 << nbits) - 1)
        fv = _mkflag(ctx, enum_cls, v)
    sa, ino = 11 + fi, 31 - fi            # addresses are not the subject here
    old = ctx.fresh("old", 0, 0xFFFFFF)
    inst = M.Instance(itype=1, filt=old)
    u = _device(ctx, sa, ino, inst)
    nq = width // 8
    fault, hit = _fault(ctx, 5 + nq)
    bus = M.Bus([u], fault=fault)
    dev = A.DeviceShort(sa) if ctx.fresh_bool("obj") else sa
    st, r = bus.run(DS.SetEventFilters(dev, A.InstanceNumber(ino), fv))
    if st != "ok":
        ctx.fail("SetEventFilters: %s %r" % (st, r), key="setfilter/raised:" + name)
        return "raised"
    mask = (1 << width) - 1
    ctx.prove(E.eq(inst.filt & mask, v), "instance filter differs from the request (within the filter's "
              "declared %d bits)" % width, key="setfilter/unit:%s" % name)
    if hit:
        ctx.prove(r is None, "result %r although an answer was missing/garbled" % (r,),
                  key="setfilter/fault-not-none:" + name)
        return "fault"
    if r is None:
        ctx.fail("no result although the unit answered every query", key="setfilter/none:" + name)
        return "none"
    ctx.prove(E.eq(_flagval(r) & mask, inst.filt & mask), "returned filter differs from what the unit reports",
              key="setfilter/result:" + name)
    ctx.observe("filter", inst.filt & mask)
    return "ok"


def h_query_filter(ctx, fi, form):
    name, enum_cls, width, nbits = FILTERS[fi]
    filt = ctx.fresh("filt", 0, 0xFFFFFF)
    ctx.assume(E.lt(filt & ((1 << width) - 1), 1 << nbits))      # only defined flags are set
    sa, ino = 63 - fi, fi
    inst = M.Instance(itype=1, filt=filt)
    u = _device(ctx, sa, ino, inst)
    nq = width // 8
    fault, hit = _fault(ctx, nq)
    bus = M.Bus([u], fault=fault)
    if form == "module":
        ft = {"pushbutton": pb, "occupancy": occ, "light": light}[name]
    elif ctx.symbolic:
        from symx import shims
        ft = shims._SymFlagClass(enum_cls)
    else:
        ft = enum_cls
    st, r = bus.run(DS.QueryEventFilters(A.DeviceShort(sa), A.InstanceNumber(ino), ft))
    if hit:
        ctx.prove(st == "ok" and r is None, "fault gave %s %r" % (st, r), key="queryfilter/fault:" + name)
        return "fault"
    if st != "ok" or r is None:
        ctx.fail("QueryEventFilters: %s %r" % (st, r), key="queryfilter/raised:" + name)
        return "raised"
    mask = (1 << width) - 1
    ctx.prove(E.eq(_flagval(r), filt & mask), "returned filter differs from the unit's",
              key="queryfilter/value:" + name)
    ctx.prove(len(bus.commands) == nq, "unexpected number of queries", key="queryfilter/count:" + name)
    return "ok"


# ---- event schemes ---------------------------------------------------------------------------------------

def h_scheme(ctx):
    sch = ctx.fresh("scheme", -1, 6)
    as_enum = False
    sa, ino = 0, 31
    old = ctx.fresh("old", 0, 4)
    inst = M.Instance(itype=1, scheme=old)
    u = _device(ctx, sa, ino, inst)
    fault, hit = _fault(ctx, 3)
    bus = M.Bus([u], fault=fault)
    st, r = bus.run(DS.SetEventSchemes(A.DeviceShort(sa), A.InstanceNumber(ino), sch))
    legal = E.between(0, sch, 4)
    if st == "exc":
        ctx.prove(isinstance(r, ValueError), "invalid scheme raised %r" % (r,), key="scheme/exc-type")
        ctx.prove(E.not_(legal), "valid scheme rejected", key="scheme/legal-rejected")
        ctx.prove(len(bus.frames) == 0, "frames sent before the scheme was rejected", key="scheme/sent-before-reject")
        return "reject"
    ctx.prove(legal, "invalid scheme accepted", key="scheme/illegal-accepted")
    ctx.prove(E.eq(inst.scheme, sch), "instance scheme differs from the request", key="scheme/unit")
    if r is None:
        ctx.fail("no response returned", key="scheme/none")
        return "none"
    ctx.prove(isinstance(r, dg.QueryEventSchemeResponse), "returned %r" % (r,), key="scheme/result-type")
    if hit:
        ctx.prove(r.raw_value is None or r.raw_value.error, "fault not visible in the returned response",
                  key="scheme/fault-visible")
        return "fault"
    ctx.prove(r.raw_value is not None and E.eq(r.raw_value.as_integer, inst.scheme),
              "returned response differs from what the unit reports", key="scheme/result")
    return "ok"


def h_scheme_enum(ctx):
    n = 0
    for m in dg.EventScheme:
        inst = M.Instance(itype=1, scheme=(int(m) + 1) % 5)
        u = M.Unit("device", short=9)
        u.instances = {2: inst}
        bus = M.Bus([u])
        st, r = bus.run(DS.SetEventSchemes(9, 2, m))
        ctx.prove(st == "ok" and inst.scheme == int(m) and r is not None and r.value == m,
                  "scheme %s: %s %r unit=%r" % (m, st, r, inst.scheme), key="scheme/enum:%s" % m.name)
        n += 1
    for bad in (5, -1, 255):
        bus = M.Bus([M.Unit("device", short=9)])
        st, r = bus.run(DS.SetEventSchemes(9, 2, bad))
        ctx.prove(st == "exc" and isinstance(r, ValueError) and not bus.frames, "scheme %r: %s %r" % (bad, st, r),
                  key="scheme/bad:%r" % bad)
    # dali_width of user-defined filter enums with 1..25 members
    for k in range(1, 26):
        cls = dg.InstanceEventFilter("F%d" % k, {"m%d" % i: 1 << i for i in range(k)})
        st, w = call(cls.dali_width)
        if k <= 24:
            ctx.prove(st == "ok" and w == (8 if k <= 8 else 16 if k <= 16 else 24),
                      "dali_width of a %d-member filter: %r" % (k, w), key="filter/width:%d" % k)
        else:
            ctx.prove(st == "exc" and isinstance(w, TypeError), "25-member filter accepted: %r" % (w,),
                      key="filter/width:25")
    return "n=%d" % n


# ---- autodiscover ----------------------------------------------------------------------------------------------

def h_discover(ctx, ndev, maxinst, full=None):
    """full = (count, symbolic instance numbers): one healthy device reporting exactly `count` instances of
    which the listed ones have symbolic enabled flag / type and the others are disabled (no fault): the
    fully populated unit with 32 instances, the last of them number 31."""
    devs = []
    expect = {}
    for d in range(ndev):
        present = ctx.fresh_bool("present%d" % d) if full is None else True
        if not present:
            continue
        status = ctx.fresh("status%d" % d, 0, 255)
        if full is not None:
            ctx.assume(E.eq(status & 0x44, 0))
        cnt = ctx.fresh("count%d" % d, 0, maxinst) if full is None else full[0]
        u = M.Unit("device", short=d)
        u.status = status
        u.n_instances = cnt
        u.instances = {}
        for i in range(maxinst if full is None else full[0]):
            if full is not None and i not in full[1]:
                u.instances[i] = M.Instance(itype=0, enabled=False)
                continue
            en = ctx.fresh_bool("en%d_%d" % (d, i))
            ty = ctx.fresh("type%d_%d" % (d, i), 0, 255)
            u.instances[i] = M.Instance(itype=ty, enabled=en)
        devs.append((d, u, status, cnt))
    # number of queries is data dependent; one fault at a symbolic query index
    nfault = ctx.fresh("fault_at", 0, 4 + ndev * (2 + 2 * maxinst)) if full is None else 0
    fkind = ctx.fresh_choice("fault_kind", 3) if full is None else 0   # 0 none, 1 silence, 2 framing error
    faulted = []
    qn = [0]

    def fault(n, cmd, raw):
        if cmd.response is None:
            return raw
        k = qn[0]
        qn[0] += 1
        if fkind and bool(E.eq(k, nfault)):
            faulted.append((cmd, raw))
            if fkind == 1:
                return None
            return F.BackwardFrameError(raw.as_integer if raw is not None else 0)
        return raw
    bus = M.Bus([u for _, u, _, _ in devs], fault=fault)
    m = helpers.DeviceInstanceTypeMapper()
    st, r = bus.run(m.autodiscover(addresses=(0, ndev - 1)))
    if st != "ok":
        if faulted and isinstance(r, DALISequenceError):
            # giving up on a garbled bus is reported - but the devices are not left in quiescent mode
            fr = bus.frames
            ctx.prove(len(fr) >= 4 and E.and_(E.eq(fr[-1][0], 0xFFFE1E), E.eq(fr[-2][0], 0xFFFE1E)),
                      "discovery gave up with %r and left the devices in quiescent mode" % (r,),
                      key="discover/bracket-on-error")
            return "fault-error"
        ctx.fail("autodiscover: %s %r" % (st, r), key="discover/raised:" + type(r).__name__)
        return "raised"
    # bracketed in quiescent mode (START/STOP QUIESCENT MODE to broadcast, each sent twice)
    fr = bus.frames
    ctx.prove(len(fr) >= 4 and E.and_(E.eq(fr[0][0], 0xFFFE1D), E.eq(fr[1][0], 0xFFFE1D),
                                       E.eq(fr[-1][0], 0xFFFE1E), E.eq(fr[-2][0], 0xFFFE1E)),
              "scan not bracketed by START/STOP QUIESCENT MODE (broadcast)", key="discover/quiescent")
    got = dict(m.mapping)
    want = {}
    for d, u, status, cnt in devs:
        healthy = bool(E.and_(E.not_(E.bit(status, 2)), E.not_(E.bit(status, 6))))
        if not healthy:
            continue
        c = cnt if isinstance(cnt, int) else cnt.concretize()
        for i in range(c):
            if u.instances[i].enabled:
                want[(d, i)] = u.instances[i].itype
    if faulted:
        # a fault may only remove entries (skip), never invent or alter one ...
        for (d, i), t in got.items():
            u = [x for x in devs if x[0] == d]
            ok = bool(u) and i in u[0][1].instances and \
                bool(E.and_(u[0][1].instances[i].enabled, E.eq(t, u[0][1].instances[i].itype)))
            ctx.prove(ok, "mapping entry (%d,%d) is wrong after a fault" % (d, i), key="discover/fault-wrong-entry")
        # ... and the skip is confined to what the lost answer was about: the one instance for an
        # instance-addressed query, the one device for a device-level query.  Everything else is an
        # enabled instance of a healthy responding device and has to be recorded.
        fcmd = faulted[0][0]
        fx = fcmd.frame.as_integer
        fdev = (fx >> 17) & 0x3F
        finst = (fx >> 8) & 0xFF if type(fcmd).__name__ in ("QueryInstanceEnabled", "QueryInstanceType") else None
        for (d, i), t in want.items():
            if d == fdev and (finst is None or i == finst):
                continue
            ctx.prove((d, i) in got, "a lost answer to %s (device %d%s) also dropped instance (%d,%d)"
                      % (type(fcmd).__name__, fdev, "" if finst is None else ", instance %d" % finst, d, i),
                      key="discover/fault-dropped-other:" + type(fcmd).__name__)
        return "fault"
    ctx.prove(set(got) == set(want), "recorded instances %s, expected %s" % (sorted(got), sorted(want)),
              key="discover/keys")
    for k in want:
        if k in got:
            ctx.prove(E.eq(got[k], want[k]), "recorded type of %s differs" % (k,), key="discover/type")
    return "n=%d" % len(want)


def h_input_then(ctx):
    with ctx.namespace("g."):
        a = h_input(ctx, False)
    return "%s | %s" % (a, h_input(ctx, True))


def cases(tier):
    cs = [Case("input-given", h_input, {"ask": False}), Case("input-asked", h_input, {"ask": True})]
    for fi in range(len(FILTERS)):
        cs.append(Case("set-filter-%s" % FILTERS[fi][0], h_set_filter, {"fi": fi, "plain_int": False},
                       install=_install))
    cs.append(Case("set-filter-int", h_set_filter, {"fi": 0, "plain_int": True}, install=_install))
    for fi in range(len(FILTERS)):
        cs.append(Case("query-filter-%s" % FILTERS[fi][0], h_query_filter, {"fi": fi, "form": "class"},
                       install=_install))
        if fi < 3:
            cs.append(Case("query-filter-module-%s" % FILTERS[fi][0], h_query_filter,
                           {"fi": fi, "form": "module"}, install=_install))
    cs.append(Case("scheme", h_scheme, {}, install=_install))
    # the same sequence twice in one process against independent units (another resolution, other stale
    # DTRs, another filter): nothing remembered from the first run may be used in the second
    cs.append(Case("input-asked-twice", h_input, {"ask": True}, repeat=2))
    cs.append(Case("input-given-then-asked", h_input_then, {}))
    cs.append(Case("set-filter-twice-user24", h_set_filter, {"fi": len(FILTERS) - 1, "plain_int": False},
                   install=_install, repeat=2))
    cs.append(Case("query-filter-twice-user24", h_query_filter, {"fi": len(FILTERS) - 1, "form": "class"},
                   install=_install, repeat=2))
    cs.append(Case("scheme-twice", h_scheme, {}, install=_install, repeat=2))
    cs.append(Case("scheme-enum", h_scheme_enum, {}, install=_install))
    cs.append(Case("discover-full-32", h_discover, {"ndev": 1, "maxinst": 32, "full": (32, (0, 30, 31))}))
    cs.append(Case("discover-full-31", h_discover, {"ndev": 1, "maxinst": 32, "full": (31, (0, 29, 30))}))
    if tier == "quick":
        cs.append(Case("discover-2x2", h_discover, {"ndev": 2, "maxinst": 2}))
    else:
        cs.append(Case("discover-2x4", h_discover, {"ndev": 2, "maxinst": 4}))
        cs.append(Case("discover-3x2", h_discover, {"ndev": 3, "maxinst": 2}))
    return cs
