"""C09 - memory-bank reads return the declared bytes and leave the unit untouched."""
import importlib

from symx import E, Case
from symx.core import SymInt
from harness.common import call
from spec import memory_map as MM
from spec import models as M

import dali.frame as F
import dali.address as A
import dali.memory.location as L
import dali.memory.info, dali.memory.oem, dali.memory.energy  # noqa
import dali.memory.diagnostics, dali.memory.maintenance  # noqa
from dali.exceptions import MemoryLocationNotImplemented, ResponseError

# the deeper thorough case list (kept in cases()) exceeded a 13-minute cap on the loaded machine in the last
# session and could not be re-validated end to end after the final harness changes: see symx/runner.py
THOROUGH_CASES = "quick"

META = {
    "level_text": "Bounded symbolic verification of MemoryValue.read_raw/read and MemoryBank.read_all against a "
                  "specification model of IEC 62386-102 9.10 memory access (DTR0 auto-increment, answers only "
                  "for implemented locations up to the last accessible one, write-enable cleared by any other "
                  "command, lock/latch byte at location 2) for gear (16-bit) and control-device (24-bit) "
                  "addressing: the value's bytes, the last accessible location, a hole position, the initial "
                  "DTR0-2 and a fault (silence / framing error at a symbolic read) are symbolic; z3 shows the "
                  "bytes returned are the stored ones, MemoryLocationNotImplemented is raised exactly when a "
                  "declared location is beyond the last accessible one or unimplemented, ResponseError on a "
                  "garbled answer, no location is written by a read, and a latched read_all un-latches.",
    "level_note": "Trusted: the unit/memory model in /verif/spec/models.py (write-enable semantics as in 102 "
                  "9.10.5 and as modelled by the repository's own test fakes), z3/cvc5, symx semantics (each "
                  "path re-run concretely). One disturbance (short bank / hole / fault) per path.",
    "explanation": "symbolic execution of read_raw / read / read_all driven against the memory model",
    "bounds": ["latching read_all of a bank found latched; interpreted read() of values up to 8 locations under hole / short bank / fault with memory compared afterwards",
               "every declared value + LastAddress/LockByte of every bank, gear and device addressing",
               "value bytes symbolic (all widths incl. 24/60-byte strings), last accessible location 0..254 "
               "symbolic, one hole at a symbolic position, one fault at a symbolic read",
               "read_all: last accessible location = every boundary around the bank's values (thorough: "
               "0..declared last+2), one value's bytes symbolic per case, latch on/off",
               "MASK / TMASK reported by read() exactly where the DiiA flag table (spec/memory_map.FLAGS) "
               "says the value supports them",
               "a few single-value reads and one read_all per bank twice in one process against independent "
               "units (another last accessible location, another image)",
               "read_all with a run of 9 (thorough 20) unimplemented locations before a value (all banks but 1)"],
    "stubs": ["isinstance/int/bytes/pow shims"],
    "outside": ["units that violate 9.10 other than by silence/garbling", "several disturbances at once",
                "read_all with all values symbolic at once (product of per-value outcomes)"],
    "assumptions": ["a READ MEMORY LOCATION (like any command other than DTRx / WRITE MEMORY LOCATION / QUERY "
                    "CONTENT DTRx) clears the write-enable state"],
}


def _values():
    out = []
    for row in MM.ROWS:
        cls = getattr(importlib.import_module(row[0]), row[2], None)
        if cls is not None:
            out.append((row[1], row[2], cls))
    for bname, (mod, number, last, has_lock, has_latch) in MM.BANK_HEADERS.items():
        b = getattr(importlib.import_module(mod), bname)
        out.append((bname, "LastAddress", b.LastAddress))
        if b.LockByte is not None:
            out.append((bname, "LockByte", b.LockByte))
    return out


def _addr(kind, n):
    return A.GearShort(n) if kind == "gear" else A.DeviceShort(n)


def _mkunit(ctx, kind, sa, bankno, image, last, hole, has_lock, hole_len=1):
    if hole is not None and isinstance(hole, int) and hole_len > 1:
        holes = set(range(hole, hole + hole_len))
    else:
        holes = (lambda loc: bool(E.and_(E.ge(loc, hole), E.lt(loc, hole + hole_len)))) if hole is not None else ()
    bank = M.MemoryBank(image, last, holes=holes, has_lock=has_lock)
    u = M.Unit(kind, short=sa, dtr0=ctx.fresh("dtr0", 0, 255), dtr1=ctx.fresh("dtr1", 0, 255),
               dtr2=ctx.fresh("dtr2", 0, 255), banks={bankno: bank})
    return u, bank


def _same_value(a, b, ctx):
    if isinstance(a, L.FlagValue) or isinstance(b, L.FlagValue):
        return a is b
    if type(a).__name__ == "SymScaled" or type(b).__name__ == "SymScaled":
        return type(a) is type(b) and a.factor == b.factor and E.eq(a.base, b.base)
    if isinstance(a, str) or isinstance(b, str):
        return isinstance(a, str) and isinstance(b, str) and ctx.text_equal(a, b)
    if type(a).__name__ == "SymStr" or type(b).__name__ == "SymStr":
        return bool(a == b)
    if isinstance(a, (int, SymInt)) and isinstance(b, (int, SymInt)):
        return E.eq(a, b)
    return a == b


def h_read(ctx, vi, kind):
    bname, vname, cls = _values()[vi]
    tag = "%s/%s/%s" % (bname, vname, kind)
    bankno = cls.bank.address
    locs = [l.address for l in cls.locations]
    image = {l: ctx.fresh("m%d" % l, 0, 255) for l in locs}
    for l in range(max(0, min(locs) - 2), min(254, max(locs) + 3) + 1):
        image.setdefault(l, (l * 41 + 3) & 0xFF)          # the neighbouring locations exist and hold other bytes
    mode = ctx.fresh_choice("mode", 4)        # 0 none, 1 short bank, 2 hole, 3 fault
    last = ctx.fresh("last", 0, 254) if mode == 1 else 254
    hole = ctx.fresh("hole", 0, 254) if mode == 2 else None
    if mode == 3:
        fstep = ctx.fresh("fault_at", 0, len(locs) - 1)
        fkind = ctx.fresh_choice("fault_kind", 2)
    image.setdefault(0, last)
    sa = 9
    u, bank = _mkunit(ctx, kind, sa, bankno, image, last, hole, cls.bank.LockByte is not None)
    faulted = []

    def mkfault(log):
        reads = [0]

        def fault(n, cmd, raw):
            if cmd.response is None:
                return raw
            # (queries that are not reads of a memory location - DTR read-backs - do not count)
            if not type(cmd).__name__.endswith("ReadMemoryLocation"):
                return raw
            k = reads[0]
            reads[0] += 1
            if mode == 3 and bool(E.eq(k, fstep)):
                log.append(k)
                return None if fkind == 0 else F.BackwardFrameError(raw.as_integer if raw is not None else 0)
            return raw
        return fault
    before = dict(bank.image)
    bus = M.Bus([u], fault=mkfault(faulted))
    as_int = kind == "gear" and vi % 2 == 0
    st, r = bus.run(cls.read_raw(sa if as_int else _addr(kind, sa)))
    # never written, write-enable never set by a read
    ctx.prove(not bank.writes and all(bank.image[k] is before[k] for k in before),
              "a read wrote to the unit's memory", key=tag + "/wrote")
    # the interpreted read of the same value from an identical unit, under the same disturbance: whether it
    # succeeds or fails, the unit's memory is afterwards what it was (lock/latch byte included)
    st2, v2 = "skipped", None
    if len(locs) <= 8:
        # (long strings: interpretation of the bytes is C11's subject and would multiply the paths)
        u2, bank2 = _mkunit(ctx, kind, sa, bankno, image, last, hole, cls.bank.LockByte is not None)
        before2 = dict(bank2.image)
        st2, v2 = M.Bus([u2], fault=mkfault([])).run(cls.read(_addr(kind, sa)))
        ctx.prove(all(bank2.image[k] is before2[k] or bool(E.eq(bank2.image[k], before2[k])) for k in before2),
                  "read() of the value left the unit's memory changed%s"
                  % (" (it failed with %r)" % (v2,) if st2 == "exc" else ""),
                  key=tag + ("/read-changed-after-error" if st2 == "exc" else "/read-changed"))
    missing = E.or_(*[E.or_(E.gt(l, last), E.eq(l, hole) if hole is not None else False) for l in locs])
    if faulted:
        if fkind == 0:
            ctx.prove(st == "exc" and isinstance(r, MemoryLocationNotImplemented),
                      "silent unit gave %s %r" % (st, r), key=tag + "/silence")
        else:
            ctx.prove(st == "exc" and isinstance(r, ResponseError), "garbled answer gave %s %r" % (st, r),
                      key=tag + "/garbled")
        return "fault"
    if st == "exc":
        ctx.prove(isinstance(r, MemoryLocationNotImplemented), "read raised %r" % (r,),
                  key=tag + "/exc-type:" + type(r).__name__)
        ctx.prove(missing, "MemoryLocationNotImplemented although every location is implemented",
                  key=tag + "/spurious-notimplemented")
        return "notimplemented"
    ctx.prove(E.not_(missing), "bytes returned although a location is beyond the last accessible one / a hole",
              key=tag + "/missing-not-reported")
    ok = len(r) == len(locs)
    ctx.prove(ok and E.and_(*[E.eq(x, image[l]) for x, l in zip(r, locs)]),
              "bytes returned differ from the stored ones", key=tag + "/bytes")
    if len(locs) > 8:
        # long strings: interpretation of the bytes is C11's subject (and would multiply the paths)
        return "ok-raw"
    # interpreted read == from_list on the same image
    lst = [None] * 256
    for l in locs:
        lst[l] = image[l]
    st3, v3 = call(cls.from_list, lst)
    ctx.prove(st2 == "ok" and st3 == "ok" and _same_value(v2, v3, ctx),
              "read() differs from interpreting the stored bytes: %r vs %r" % (v2, v3), key=tag + "/interpreted")
    # the MASK / TMASK flags follow the DiiA tables (which values support them), not only the class's own
    # declarations: C11 checks the full decoding, here only that a read reports the flag where it must
    row = [x for x in MM.ROWS if x[1] == bname and x[2] == vname]
    if row and st2 == "ok":
        kindv = row[0][7]
        sup_mask, sup_tmask, mn, mx = MM.flags(vname)
        payload = [image[l] for l in locs][1 if kindv == "scaled" else 0:]
        ones = E.and_(*[E.eq(b, 0xFF) for b in payload])
        ones_1 = E.and_(*([E.eq(b, 0xFF) for b in payload[:-1]] + [E.eq(payload[-1], 0xFE)]))
        badscale = E.and_(E.gt(image[locs[0]], 6), E.lt(image[locs[0]], 0xFA)) if kindv == "scaled" else False
        ctx.prove(E.iff(v2 is L.FlagValue.MASK, E.and_(sup_mask, ones, E.not_(badscale))),
                  "read() reports MASK for a pattern / value where the DiiA tables do not (or misses it)",
                  key=tag + "/mask-flag")
        ctx.prove(E.iff(v2 is L.FlagValue.TMASK, E.and_(sup_tmask, ones_1, E.not_(badscale))),
                  "read() reports TMASK for a pattern / value where the DiiA tables do not (or misses it)",
                  key=tag + "/tmask-flag")
    ctx.observe("raw", r)
    return "ok"


def h_read_all(ctx, bname, vi, kind, lasts, use_latch, near=False, gap=1):
    """gap: width of the hole (run of unimplemented locations inside the bank); a wide gap sits *before* the
    probe value, whose own locations are implemented: values behind a run of NOs must still be reported."""
    mod, number, declared_last, has_lock, has_latch = MM.BANK_HEADERS[bname]
    bobj = getattr(importlib.import_module(mod), bname)
    values = [v for v in bobj.values]
    probe = values[vi]
    tag = "%s/read_all/%s" % (bname, kind)
    plocs = [l.address for l in probe.locations]
    last = lasts[ctx.fresh_choice("lasti", len(lasts))]
    image = {}
    for l in range(0, 256):
        image[l] = (l * 37 + 11) & 0xFF
    for l in plocs:
        if l not in (0, 2):
            image[l] = ctx.fresh("m%d" % l, 0, 255)
    image[0] = last
    if has_lock or has_latch:
        image[2] = ctx.fresh("lockbyte", 0, 255)
        if not (use_latch and has_latch):
            # (a bank found latched by someone else is that someone's business when this read does not latch;
            # a latching read ends unlatched whatever it found)
            ctx.assume(E.ne(image[2], 0xAA))
    start0 = 2 if number == 0 else 3
    hole_mode = ctx.fresh_bool("with_hole")
    if near:
        # quick tier: disturbances around the probe value only
        hlo, hhi = max(3, min(plocs) - 1), min(254, max(plocs) + 1)
        flo, fhi = max(1, min(plocs) - start0), max(1, max(plocs) - start0 + 2)
    else:
        hlo, hhi, flo, fhi = 3, 254, 1, 40
    hole = ctx.fresh("hole", hlo, hhi) if hole_mode else None
    if gap > 1:
        if min(plocs) - gap < 3:
            return "no room for the gap"
        # (concrete start positions: directly after the header, directly before the probe value, in between;
        # no fault on top)
        starts = sorted({3, min(plocs) - gap, (3 + min(plocs) - gap) // 2})
        hole = starts[ctx.fresh_choice("gap_start", len(starts))] if hole_mode else None
    fault_mode = (not hole_mode) and gap == 1 and ctx.fresh_bool("with_fault")
    if fault_mode:
        fstep = ctx.fresh("fault_at", flo, fhi)
        fkind = ctx.fresh_choice("fault_kind", 2)
    sa = 4
    u, bank = _mkunit(ctx, kind, sa, number, image, last, hole, has_lock or has_latch, hole_len=gap)
    reads = [0]
    faulted = []

    def fault(n, cmd, raw):
        if cmd.response is None:
            return raw
        k = reads[0]
        reads[0] += 1
        if fault_mode and bool(E.eq(k, fstep)):
            faulted.append(k)
            return None if fkind == 0 else F.BackwardFrameError(raw.as_integer if raw is not None else 0)
        return raw
    before = dict(bank.image)
    bus = M.Bus([u], fault=fault, max_commands=600)
    st, r = bus.run(bobj.read_all(_addr(kind, sa), use_latch=use_latch))
    latched = use_latch and has_latch
    # memory unchanged except the lock/latch byte; not left latched
    for k in before:
        if k == 2 and (has_lock or has_latch):
            continue
        if bank.image[k] is not before[k]:
            ctx.fail("read_all changed location %d" % k, key=tag + "/changed")
    if has_lock or has_latch:
        if latched and bool(E.eq(before[2], 0xAA)) and (not bank.implemented(2) or (st == "exc" and not bank.writes)):
            pass        # (no lock byte in a bank that short / the read failed before it touched the bank)
        elif latched:
            ctx.prove(E.ne(bank.image[2], 0xAA), "bank left latched after read_all%s"
                      % (" (aborted by %r)" % (r,) if st == "exc" else ""),
                      key=tag + ("/left-latched-after-error" if st == "exc" else "/left-latched"))
        else:
            ctx.prove(bank.image[2] is before[2], "lock byte changed by a read that does not latch",
                      key=tag + "/lockbyte-changed")
    if st == "exc":
        if faulted and fkind == 1:
            ctx.prove(isinstance(r, ResponseError), "garbled answer gave %r" % (r,), key=tag + "/garbled")
            return "garbled"
        if last < 0 or (faulted and fkind == 0 and faulted[0] == 0):
            return "no-bank"
        ctx.fail("read_all raised %r" % (r,), key=tag + "/raised:" + type(r).__name__)
        return "raised"
    if faulted and fkind == 1:
        ctx.fail("garbled answer at read %d not reported" % faulted[0], key=tag + "/garbled-not-reported")
        return "garbled-missed"
    # expected key set: values whose locations are all implemented (header bytes aside)
    lst = [None] * 256
    silent_loc = None
    if faulted:
        # a silent read at query index k: the location read there counts as unimplemented
        start = 2 if number == 0 else 3
        silent_loc = start + faulted[0] - 1
    for l in range(0, 256):
        if l <= last and not (hole is not None and bool(E.and_(E.ge(l, hole), E.lt(l, hole + gap)))) \
                and l != silent_loc:
            lst[l] = image[l]
    start = 2 if number == 0 else 3
    for l in range(0, start):
        lst[l] = None
    want = {}
    for v in values:
        st3, x = call(v.from_list, lst)
        if st3 == "ok":
            want[v] = x
    ctx.prove(set(r) == set(want), "read_all reports %s, expected %s"
              % (sorted(v.__name__ for v in r), sorted(v.__name__ for v in want)), key=tag + "/keys")
    for v in want:
        if v in r:
            ctx.prove(_same_value(r[v], want[v], ctx), "read_all entry %s differs from reading it alone"
                      % v.__name__, key=tag + "/entry")
    return "keys=%d" % len(want)


def cases(tier):
    cs = []
    vals = _values()
    for vi, (bname, vname, cls) in enumerate(vals):
        for kind in ("gear", "device"):
            if tier == "quick" and kind == "device" and vi % 3 != 0:
                continue
            cs.append(Case("read-%s-%s-%s" % (bname, vname, kind), h_read, {"vi": vi, "kind": kind}, width=128))
    # the same read twice in one process against independent units / images: nothing read once may be
    # remembered (values of 1..3 bytes keep the square of the path count small)
    small = [vi for vi, (bname, vname, cls) in enumerate(vals) if len(cls.locations) <= 3]
    for vi in small[::(9 if tier == "quick" else 3)]:
        bname, vname, cls = vals[vi]
        cs.append(Case("read-twice-%s-%s" % (bname, vname), h_read, {"vi": vi, "kind": "gear"}, width=128, repeat=2))
    for bname, (mod, number, declared_last, has_lock, has_latch) in MM.BANK_HEADERS.items():
        bobj = getattr(importlib.import_module(mod), bname)
        bounds = set()
        for v in bobj.values:
            ls = [l.address for l in v.locations]
            bounds.update((min(ls) - 1, min(ls), max(ls) - 1, max(ls), max(ls) + 1))
        if tier == "quick":
            lasts = sorted(b for b in bounds if 1 <= b <= 254)
            lasts = lasts[::6] + [declared_last, declared_last - 1]
        else:
            lasts = list(range(1, min(254, declared_last + 3)))
        lasts = sorted(set(lasts))
        nv = len(bobj.values)
        # read_all twice in one process against units with independent last accessible locations (what was
        # learnt about one unit must not be applied to the next, even at the same short address)
        cs.append(Case("readall-twice-%s" % bname, h_read_all,
                       {"bname": bname, "vi": 0, "kind": "gear", "lasts": lasts, "use_latch": True,
                        "near": tier == "quick"}, width=128, repeat=2))
        # a run of 9 (thorough also 20) unimplemented locations somewhere before the last declared value
        smallv = [i for i, v in enumerate(bobj.values) if len(v.locations) <= 4]
        gvi = smallv[-1] if smallv else nv - 1      # (a small probe value: long strings multiply the paths)
        cs.append(Case("readall-gap9-%s" % bname, h_read_all,
                       {"bname": bname, "vi": gvi, "kind": "gear", "lasts": [declared_last], "use_latch": True,
                        "near": False, "gap": 9}, width=128))
        if tier != "quick":
            cs.append(Case("readall-gap20-%s" % bname, h_read_all,
                           {"bname": bname, "vi": gvi, "kind": "device", "lasts": [declared_last],
                            "use_latch": False, "near": False, "gap": 20}, width=128))
        for vi in (range(nv) if tier != "quick" else range(0, nv, 5)):
            if len(bobj.values[vi].locations) > 8:
                continue        # long strings as the symbolic probe multiply the paths (C11's subject)
            for kind in ("gear", "device"):
                if kind == "device" and tier == "quick" and vi % 10:
                    continue
                for use_latch in ((True, False) if has_latch else (True,)):
                    cs.append(Case("readall-%s-%d-%s-%s" % (bname, vi, kind, "latch" if use_latch else "nolatch"),
                                   h_read_all, {"bname": bname, "vi": vi, "kind": kind, "lasts": lasts,
                                                "use_latch": use_latch, "near": tier == "quick"}, width=128))
    return cs
