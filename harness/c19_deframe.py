"""C19 - serial receivers deframe any byte stream like the protocol's grammar."""
import asyncio
import logging

from symx import E, Case
from harness.common import call
from spec import wire_formats as WF

import dali.frame as F
import dali.command as C
import dali.gear.general as gg
import dali.driver.serial as S

# the deeper thorough case list (kept in cases()) exceeded a 13-minute cap on the loaded machine in the last
# session and could not be re-validated end to end after the final harness changes: see symx/runner.py
THOROUGH_CASES = "quick"

META = {
    "level_text": "Bounded symbolic verification of the LUBA and SCI receivers: (1) inductive step - from an "
                  "arbitrary receiver state satisfying the state invariant (symbolic state, lengths and buffer) "
                  "one symbolic byte never raises an internal error and re-establishes the invariant, so no "
                  "stream of any length can wedge the receiver; (2) every well-formed frame of every type and "
                  "payload length from idle delivers exactly the reference item and returns to idle; bad "
                  "checksum / unknown type / impossible length deliver nothing and return to idle; (3) all "
                  "fully symbolic streams up to 5 bytes (thorough 7) for LUBA and 10 (thorough 15) for SCI, "
                  "with a symbolic split into two reads, deliver exactly the items of an independent "
                  "reference deframer and still accept a following well-formed frame.",
    "level_note": "Trusted: the reference deframers in /verif/spec/wire_formats.py (LUBA: 'Y' cmd len payload "
                  "xor-checksum; SCI: 5-byte blocks), z3/cvc5, symx semantics (each path re-run concretely). "
                  "Decoding of the DALI frames inside the packets is stubbed (C01's subject): the stub records "
                  "the frame bytes and the device type passed.",
    "explanation": "symbolic execution of LubaProtocol/SCIRS232Protocol.data_received/_process_byte and the "
                   "_process_* handlers on symbolic bytes",
    "bounds": ["step: every state x symbolic byte x symbolic buffer (induction over stream length)",
               "frames: every LUBA command code (symbolic) x payload length 1..23 x symbolic payload",
               "streams: LUBA <= 5 (thorough 7) symbolic bytes, SCI <= 10 (thorough 15), split point symbolic",
               "whole LUBA frames with payload 2/7/13/20/23 (thorough: every length) delivered in two reads "
               "split at a solver-chosen position and one byte per read",
               "'frame observed' messages carrying any 16- / 24-bit frame through the receiver with the real "
               "decoder behind it (all other cases use a recording decode stub)",
               "two live receivers of a kind: a message to one split at a solver-chosen position around a "
               "whole message to the other",
               "a burst of 80 observed-frame messages in one read"],
    "stubs": ["isinstance/int/bytes shims", "EnumProxy for LubaCmd / SCIRS232Code / ErrorType",
              "command.Command.from_frame replaced by a recording stub inside dali.driver.serial"],
    "outside": ["streams containing a checksum-valid frame whose payload is malformed for its type (set aside "
                "by the property)", "symbolic streams longer than the bound (covered by the inductive step "
                "for 'never wedges', not for item equality)"],
    "assumptions": [],
}


logging.disable(logging.CRITICAL)      # logging is not the subject (and formats every byte)


class Decoded:
    """What the recording decode stub returns."""
    sendtwice = False
    response = None

    def __init__(self, data, width, devicetype):
        self.data, self.width, self.devicetype = data, width, devicetype
        self.frame = F.Frame(width, data) if width else None


class _CmdStub:
    """Stands in for dali.command inside dali.driver.serial."""
    Response = C.Response

    class Command:
        calls = []
        forward = []      # was the decoder handed a ForwardFrame?  (it refuses to wrap anything else in an
                          # Unknown...Command: a plain Frame that matches no command raises TypeError)

        @staticmethod
        def from_frame(f, devicetype=0, dev_inst_map=None):
            v = f.as_integer
            w = len(f)
            _CmdStub.Command.calls.append((v, w, devicetype))
            _CmdStub.Command.forward.append(isinstance(f, F.ForwardFrame))
            if w == 16 and (v >> 8) == 0xC1:
                return gg.EnableDeviceType(v & 0xFF)
            return Decoded(v, w, devicetype)


class _patched:
    """Patch dali.driver.serial.command for the duration of one harness run
    (both modes) and proxy the enums in symbolic mode."""

    def __init__(self, ctx, stub=True):
        self.ctx = ctx
        self.stub = stub

    def __enter__(self):
        self.saved = S.command
        if self.stub:
            S.command = _CmdStub
        _CmdStub.Command.calls = []
        _CmdStub.Command.forward = []
        self.enums = []
        if self.ctx.symbolic:
            from symx import shims
            for owner, name in ((S.DriverLubaRs232, "LubaCmd"), (S.DriverSCIRS232, "SCIRS232Code"),
                                (S.DriverSCIRS232.SCIRS232Protocol, "ErrorType")):
                real = getattr(owner, name)
                if not isinstance(real, shims.EnumProxy):
                    self.enums.append((owner, name, real))
                    setattr(owner, name, shims.EnumProxy(real))
        return self

    def __exit__(self, *a):
        S.command = self.saved
        for owner, name, real in self.enums:
            setattr(owner, name, real)
        return False


def _has_state_attrs(p, names):
    return all(hasattr(p, n) for n in names) and \
        (not hasattr(p, "_buffer") or isinstance(getattr(p, "_buffer"), list))


def _drain(q):
    out = []
    while True:
        try:
            out.append(q.get_nowait())
        except asyncio.QueueEmpty:
            return out


def _luba_items(p, child):
    """Everything the receiver delivered, in the reference's vocabulary."""
    items = []
    for x in _drain(p._queue_tx_conf):
        fr = x.message
        data = None
        if isinstance(fr, Decoded):
            data = (fr.data, fr.width)
        elif isinstance(fr, gg.EnableDeviceType):
            data = (fr.frame.as_integer, 16)
        items.append(("txconf", x.tx_id, data))
    for x in _drain(p._queue_rx_raw_dali):
        items.append(("bf", x))
    for x in _drain(child):
        if isinstance(x, Decoded):
            items.append(("cmd", (x.data, x.width)))
        else:
            items.append(("cmd", (x.frame.as_integer, len(x.frame))))
    for x in _drain(p._queue_rx_luba_cmd):
        if isinstance(x, S.DriverLubaRs232.LubaDeviceInfo):
            items.append(("info", x))
        else:
            items.append(("settings", x.mode, x.event_filter))
    return items


def _be(bs):
    acc = 0
    for b in bs:
        acc = (acc << 8) | b
    return acc


def _match_items(ctx, got, want, tag):
    """Compare delivered items with the reference's (by kind, order within kind)."""
    for kind in ("bf", "txconf", "cmd", "info", "settings"):
        g = [x for x in got if x[0] == kind]
        w = [x for x in want if x[0] == kind]
        if len(g) != len(w):
            ctx.fail("%d %s item(s) delivered, reference says %d" % (len(g), kind, len(w)),
                     key=tag + "/count:" + kind)
            continue
        for a, b in zip(g, w):
            if kind == "bf":
                ctx.prove(E.eq(a[1], b[1]), "backward-frame value differs", key=tag + "/bf")
            elif kind == "txconf":
                ok = E.eq(a[1], b[1])
                if len(b[2]) and a[2] is not None:
                    ok = E.and_(ok, a[2][1] == 8 * len(b[2]), E.eq(a[2][0], _be(b[2])))
                ctx.prove(ok, "transmit confirmation differs", key=tag + "/txconf")
            elif kind == "cmd":
                ctx.prove(E.and_(a[1][1] == 8 * len(b[1]), E.eq(a[1][0], _be(b[1]))),
                          "observed command frame differs", key=tag + "/cmd")
            elif kind == "settings":
                ctx.prove(E.and_(E.eq(a[1], b[1]), E.eq(a[2], b[2])), "settings differ", key=tag + "/settings")
            elif kind == "info":
                pl = b[1]
                ctx.prove(E.and_(E.eq(a[1].gtin, _be(pl[0:6])), E.eq(a[1].id, _be(pl[6:14])),
                                 E.eq(a[1].pcb_ver, pl[14]), E.eq(a[1].assembly_ver, pl[15]),
                                 E.eq(a[1].article_num, _be(pl[16:20]))), "device info differs",
                          key=tag + "/info")


WELL_FORMED = [0x59, 0x31, 0x06, 0x00, 0x01, 0x00, 0x88, 0x12, 0x34, 0x31 ^ 0x06 ^ 0x01 ^ 0x88 ^ 0x12 ^ 0x34]


def _accepts_following(ctx, p, child, tag):
    """After whatever came before (ending at a frame boundary), a well-formed
    frame must be delivered."""
    st, r = call(p.data_received, bytes(WELL_FORMED))
    got = _luba_items(p, child)
    ctx.prove(st == "ok" and len(got) == 1 and got[0][0] == "cmd" and bool(E.eq(got[0][1][0], 0x1234)),
              "a well-formed frame after the stream was not delivered (%s %r, %r)" % (st, r, got),
              key=tag + "/wedged")


# ---------------------------------------------------------------------------------------------
# LUBA

def h_luba_frame(ctx, ln, chunking="whole"):
    """From idle: one frame with symbolic command code, payload of length ln, symbolic checksum; delivered in
    one read, in two reads split at a solver-chosen position, or one byte per read."""
    with _patched(ctx):
        p = S.DriverLubaRs232.LubaProtocol()
        child = S.DistributorQueue(p.queue_rx_dali)
        cmd = ctx.fresh("cmd", 0, 255)
        payload = [ctx.fresh("p%d" % i, 0, 255) for i in range(ln)]
        good = ctx.fresh_bool("good_checksum")
        chk = WF.xor_all([cmd, ln] + payload)
        if not good:
            chk = chk ^ ctx.fresh("flip", 1, 255)
        stream = [0x59, cmd, ln] + payload + [chk]
        if chunking == "whole":
            chunks = [stream]
        elif chunking == "split":
            k = 1 + ctx.fresh_choice("split", len(stream) - 1)
            chunks = [stream[:k], stream[k:]]
        else:
            chunks = [[b] for b in stream]

        def feed():
            for c in chunks:
                p.data_received(c)
        st, r = call(feed)
        want, aside, pending = WF.luba_deframe(stream)
        tag = "luba-frame" if chunking == "whole" else "luba-frame-" + chunking
        if aside:
            return "set-aside"
        if st == "exc":
            ctx.fail("receiver raised %r on a frame of length %d" % (r, ln),
                     key=tag + "/raised:%s" % type(r).__name__)
            return "raised"
        ctx.prove(p.rx_state == p.ReadState.WAIT_START, "receiver not idle after a complete frame",
                  key=tag + "/not-idle")
        _match_items(ctx, _luba_items(p, child), want, tag)
        _accepts_following(ctx, p, child, tag)
        return "ok items=%d" % len(want)


def h_luba_badlen(ctx):
    with _patched(ctx):
        p = S.DriverLubaRs232.LubaProtocol()
        child = S.DistributorQueue(p.queue_rx_dali)
        cmd = ctx.fresh("cmd", 0, 255)
        ln = ctx.fresh("len", 0, 255)
        ctx.assume(E.or_(E.eq(ln, 0), E.ge(ln, 24)))
        st, r = call(p.data_received, [0x59, cmd, ln])
        ctx.prove(st == "ok" and p.rx_state == p.ReadState.WAIT_START,
                  "impossible length not dropped: %s %r" % (st, r), key="luba-badlen/not-idle")
        ctx.prove(not _luba_items(p, child), "something delivered for an impossible length", key="luba-badlen/items")
        _accepts_following(ctx, p, child, "luba-badlen")
        return "dropped"


def h_luba_step(ctx, state):
    """Inductive step: arbitrary state satisfying the invariant, one symbolic byte."""
    with _patched(ctx):
        p = S.DriverLubaRs232.LubaProtocol()
        if not _has_state_attrs(p, ("_rx_state", "_buffer", "_rx_expected_len", "_rx_received_len", "_process_byte")):
            # the receiver's private state was renamed / restructured: this (white-box) step case cannot
            # construct a state; the frame- and stream-level cases reach every state through real input
            ctx.note("receiver-internals-changed:step-case-skipped")
            return "skipped: receiver internals restructured"
        child = S.DistributorQueue(p.queue_rx_dali)
        RS = p.ReadState
        buf = [ctx.fresh("buf%d" % i, 0, 255) for i in range(len(p._buffer))]
        st_enum = [RS.WAIT_START, RS.WAIT_COMMAND, RS.WAIT_LENGTH, RS.LOOP_READ, RS.WAIT_CHECKSUM][state]
        exp, rec = None, 0
        if st_enum in (RS.WAIT_COMMAND, RS.WAIT_LENGTH):
            buf[0] = 0x59
        if st_enum in (RS.LOOP_READ, RS.WAIT_CHECKSUM):
            buf[0] = 0x59
            exp = ctx.fresh("expected", 1, 23)
            buf[2] = exp
            if st_enum == RS.LOOP_READ:
                rec = ctx.fresh("received", 0, 22)
                ctx.assume(E.lt(rec, exp))
            else:
                rec = exp
        p._rx_state = st_enum
        p._buffer = list(buf)
        p._rx_expected_len = exp
        p._rx_received_len = rec
        b = ctx.fresh("byte", 0, 255)
        st, r = call(p._process_byte, b)
        tag = "luba-step/%s" % st_enum.name
        if st == "exc":
            if st_enum == RS.WAIT_CHECKSUM:
                # a checksum-valid frame with a payload malformed for its type raises deliberately
                n = rec if isinstance(rec, int) else rec.concretize()
                frame = [0x59, buf[1], n] + buf[3:3 + n] + [b]
                want, aside, pending = WF.luba_deframe(frame)
                if aside:
                    return "set-aside"
            ctx.fail("internal error %r in state %s" % (r, st_enum.name), key=tag + "/raised:" + type(r).__name__)
            return "raised"
        # invariant re-established
        ns = p._rx_state
        ok = ns in (RS.WAIT_START, RS.WAIT_COMMAND, RS.WAIT_LENGTH, RS.LOOP_READ, RS.WAIT_CHECKSUM)
        if ns == RS.WAIT_START:
            ok = ok and p._rx_received_len == 0 and len(p._buffer) == len(buf)
        elif ns in (RS.LOOP_READ, RS.WAIT_CHECKSUM):
            e2, r2 = p._rx_expected_len, p._rx_received_len
            ok = E.and_(ok, E.between(1, e2, 23), E.le(r2, e2),
                        E.lt(r2, e2) if ns == RS.LOOP_READ else E.eq(r2, e2),
                        # the buffer must be able to hold the rest of the frame incl. checksum
                        E.lt(e2 + 3, len(p._buffer)))
        ctx.prove(ok, "state invariant broken after one byte (receiver may wedge on the rest of the frame)",
                  key=tag + "/invariant")
        return "%s->%s" % (st_enum.name, ns.name)


def h_luba_stream(ctx, n):
    with _patched(ctx):
        p = S.DriverLubaRs232.LubaProtocol()
        child = S.DistributorQueue(p.queue_rx_dali)
        stream = [ctx.fresh("s%d" % i, 0, 255) for i in range(n)]
        split = ctx.fresh("split", 0, n)
        k = split if isinstance(split, int) else split.concretize()
        tag = "luba-stream"
        st, r = call(p.data_received, stream[:k])
        if st == "ok":
            st, r = call(p.data_received, stream[k:])
        want, aside, pending = WF.luba_deframe(stream)
        if aside:
            return "set-aside"
        if st == "exc":
            ctx.fail("receiver raised %r" % (r,), key=tag + "/raised:" + type(r).__name__)
            return "raised"
        got = _luba_items(p, child)
        _match_items(ctx, got, want, tag)
        ctx.prove((p.rx_state == p.ReadState.WAIT_START) == (not pending),
                  "receiver idle=%s but the reference says pending=%s" % (p.rx_state, pending), key=tag + "/idle")
        # chunking independence: the same stream in one read
        p2 = S.DriverLubaRs232.LubaProtocol()
        child2 = S.DistributorQueue(p2.queue_rx_dali)
        st2, r2 = call(p2.data_received, stream)
        ctx.prove(st2 == "ok" and len(_luba_items(p2, child2)) == len(got),
                  "result depends on how the stream was chunked", key=tag + "/chunking")
        if not pending:
            _accepts_following(ctx, p, child, tag)
        return "items=%d%s" % (len(want), " pending" if pending else "")


# ---------------------------------------------------------------------------------------------
# SCI

def _sci_items(p, child):
    items = []
    for x in _drain(p._queue_rx_info):
        items.append(("info", x.id, x.code))
    for x in _drain(p._queue_rx_raw_dali):
        items.append(("bf", x))
    for x in _drain(child):
        if isinstance(x, Decoded):
            items.append(("cmd", (x.data, x.width)))
        else:
            items.append(("cmd", (x.frame.as_integer, len(x.frame))))
    return items


def _sci_match(ctx, got, want, tag):
    for kind in ("bf", "cmd", "info"):
        g = [x for x in got if x[0] == kind]
        w = [x for x in want if x[0] == kind]
        if len(g) != len(w):
            ctx.fail("%d %s item(s) delivered, reference says %d" % (len(g), kind, len(w)),
                     key=tag + "/count:" + kind)
            continue
        for a, b in zip(g, w):
            if kind == "bf":
                ctx.prove(E.eq(a[1], b[1]), "backward-frame value differs", key=tag + "/bf")
            elif kind == "cmd":
                ctx.prove(E.and_(a[1][1] == 8 * len(b[1]), E.eq(a[1][0], _be(b[1]))),
                          "observed command frame differs", key=tag + "/cmd")
            else:
                ctx.prove(E.and_(E.eq(a[1], b[1]), E.eq(a[2], b[2])), "status item differs", key=tag + "/info")


SCI_WELL_FORMED = [0x03, 0x00, 0x12, 0x34, 0x03 ^ 0x12 ^ 0x34]


def h_sci_stream(ctx, n):
    with _patched(ctx):
        p = S.DriverSCIRS232.SCIRS232Protocol()
        child = S.DistributorQueue(p.queue_rx_dali)
        stream = [ctx.fresh("s%d" % i, 0, 255) for i in range(n)]
        split = ctx.fresh("split", 0, n)
        k = split if isinstance(split, int) else split.concretize()
        tag = "sci-stream"
        st, r = call(p.data_received, stream[:k])
        if st == "ok":
            st, r = call(p.data_received, stream[k:])
        if st == "exc":
            ctx.fail("receiver raised %r" % (r,), key=tag + "/raised:" + type(r).__name__)
            return "raised"
        want, pending = WF.sci_deframe(stream)
        got = _sci_items(p, child)
        _sci_match(ctx, got, want, tag)
        ctx.prove((p.rx_state == p.ReadState.WAIT_STATUS) == (not pending), "idle state differs from the reference",
                  key=tag + "/idle")
        if not pending:
            st, r = call(p.data_received, bytes(SCI_WELL_FORMED))
            g2 = _sci_items(p, child)
            ctx.prove(st == "ok" and len(g2) == 1 and g2[0][0] == "cmd" and bool(E.eq(g2[0][1][0], 0x1234)),
                      "a well-formed frame after the stream was not delivered", key=tag + "/wedged")
        return "items=%d%s" % (len(want), " pending" if pending else "")


def h_sci_step(ctx, state):
    with _patched(ctx):
        p = S.DriverSCIRS232.SCIRS232Protocol()
        if not _has_state_attrs(p, ("_rx_state", "_buffer", "_process_byte", "MAX_LEN")) or \
                not all(hasattr(p.ReadState, n) for n in ("WAIT_STATUS", "WAIT_DATA_HI", "WAIT_DATA_MI",
                                                          "WAIT_DATA_LO", "WAIT_CHECKSUM")):
            ctx.note("receiver-internals-changed:step-case-skipped")
            return "skipped: receiver internals restructured"
        RS = p.ReadState
        st_enum = [RS.WAIT_STATUS, RS.WAIT_DATA_HI, RS.WAIT_DATA_MI, RS.WAIT_DATA_LO, RS.WAIT_CHECKSUM][state]
        p._rx_state = st_enum
        p._buffer = [ctx.fresh("buf%d" % i, 0, 255) for i in range(p.MAX_LEN)]
        b = ctx.fresh("byte", 0, 255)
        st, r = call(p._process_byte, b)
        tag = "sci-step/%s" % st_enum.name
        if st == "exc":
            ctx.fail("internal error %r in state %s" % (r, st_enum.name), key=tag + "/raised:" + type(r).__name__)
            return "raised"
        order = [RS.WAIT_STATUS, RS.WAIT_DATA_HI, RS.WAIT_DATA_MI, RS.WAIT_DATA_LO, RS.WAIT_CHECKSUM]
        ctx.prove(p._rx_state == order[(state + 1) % 5] and len(p._buffer) == 5,
                  "state machine left the 5-byte cycle", key=tag + "/cycle")
        return "%s->%s" % (st_enum.name, p._rx_state.name)


def h_two_receivers(ctx, which):
    """Two live receivers of the same kind (two gateways in one process).  Receiver A gets the first k bytes of
    an observed-frame message (k solver-chosen), then receiver B gets a whole message of its own with other
    symbolic bits, then A gets the rest: each must deliver exactly its own frame - receivers share nothing."""
    from harness import rigs
    with _patched(ctx):
        mk = (lambda: S.DriverLubaRs232.LubaProtocol()) if which == "luba" else (lambda: S.DriverSCIRS232.SCIRS232Protocol())
        pa, pb = mk(), mk()
        qa, qb = S.DistributorQueue(pa.queue_rx_dali), S.DistributorQueue(pb.queue_rx_dali)
        xa, xb = ctx.fresh("xa", 0, 0xFFFF), ctx.fresh("xb", 0, 0xFFFF)

        def pkt(x):
            fb = [(x >> 8) & 0xFF, x & 0xFF]
            return rigs.luba_event_rx(fb) if which == "luba" else rigs.sci_frame(0x13, 0, fb[0], fb[1])
        fa, fbm = pkt(xa), pkt(xb)
        k = 1 + ctx.fresh_choice("split", len(fa) - 1)

        def feed():
            pa.data_received(fa[:k])
            pb.data_received(fbm)
            pa.data_received(fa[k:])
        st, r = call(feed)
        tag = "%s-two" % which
        if st == "exc":
            ctx.fail("a receiver raised %r" % (r,), key=tag + "/raised:" + type(r).__name__)
            return "raised"
        for who, q, x in (("A", qa, xa), ("B", qb, xb)):
            got = []
            while q.qsize():
                got.append(q.get_nowait())
            seen = [(g.data, g.width) if isinstance(g, Decoded) else (g.frame.as_integer, len(g.frame)) for g in got]
            ok = len(seen) == 1 and seen[0][1] == 16
            ctx.prove(ok and E.eq(seen[0][0], x), "receiver %s delivered %r instead of its own observed frame"
                      % (who, seen), key=tag + "/own-frame:" + who)
        return "split@%d" % k


def h_burst(ctx, which, n):
    """A long burst: n observed-frame messages in one read, nobody consuming in between.  Every one of them is
    delivered, in order (the receiver and its queues have no capacity that silently drops the oldest)."""
    from harness import rigs
    with _patched(ctx):
        p = S.DriverLubaRs232.LubaProtocol() if which == "luba" else S.DriverSCIRS232.SCIRS232Protocol()
        child = p.new_dali_rx_queue() if hasattr(p, "new_dali_rx_queue") else S.DistributorQueue(p.queue_rx_dali)
        k0 = ctx.fresh("first_level", 0, 100)
        stream = []
        for i in range(n):
            fb = [0x04 | ((i & 31) << 1) & 0x7E, k0 + i]
            stream += rigs.luba_event_rx(fb) if which == "luba" else rigs.sci_frame(0x13, 0, fb[0], fb[1])
        st, r = call(p.data_received, stream)
        tag = "%s-burst" % which
        if st == "exc":
            ctx.fail("receiver raised %r" % (r,), key=tag + "/raised:" + type(r).__name__)
            return "raised"
        got = []
        while child.qsize():
            got.append(child.get_nowait())
        ctx.prove(len(got) == n, "%d of %d observed commands delivered" % (len(got), n), key=tag + "/count")
        for i, g in enumerate(got[:n]):
            v = g.data if isinstance(g, Decoded) else g.frame.as_integer
            ctx.prove(E.eq(v & 0xFF, k0 + i), "delivery %d is out of order or not the frame observed" % i,
                      key=tag + "/order")
        return "n=%d" % len(got)


def h_observed_real(ctx, which, bits):
    """A well-formed 'frame observed on the bus' message carrying any 16- or 24-bit frame, through the
    receiver with the library's real decoder behind it (no stub): exactly one command carrying exactly those
    bits is delivered - also when the bits match no known command - and the receiver returns to idle."""
    from harness import rigs
    with _patched(ctx, stub=False):
        p = S.DriverLubaRs232.LubaProtocol() if which == "luba" else S.DriverSCIRS232.SCIRS232Protocol()
        child = S.DistributorQueue(p.queue_rx_dali)
        x = ctx.fresh("x", 0, (1 << bits) - 1)
        fb = [(x >> (8 * i)) & 0xFF for i in reversed(range(bits // 8))]
        if which == "luba":
            pkt = rigs.luba_event_rx(fb)
        else:
            pkt = rigs.sci_frame(0x13 if bits == 16 else 0x18, fb[0] if bits == 24 else 0, fb[-2], fb[-1])
        st, r = call(p.data_received, pkt)
        tag = "%s-observed-real" % which
        if st == "exc":
            ctx.fail("receiver raised %r" % (r,), key=tag + "/raised:" + type(r).__name__)
            return "raised"
        got = []
        while child.qsize():
            got.append(child.get_nowait())
        ctx.prove(len(got) == 1, "%d commands delivered for one observed frame" % len(got), key=tag + "/count")
        if len(got) == 1:
            g = got[0]
            ctx.prove(isinstance(g, C.Command) and len(g.frame) == bits and E.eq(g.frame.as_integer, x),
                      "delivered command does not carry the observed bits", key=tag + "/bits")
        ctx.prove(p.rx_state == p.ReadState.WAIT_START if which == "luba" else True,
                  "receiver not idle after the frame", key=tag + "/not-idle")
        return type(got[0]).__name__ if got else "nothing"


def cases(tier):
    cs = []
    for which in ("luba", "sci"):
        cs.append(Case("%s-two-receivers" % which, h_two_receivers, {"which": which}))
        cs.append(Case("%s-burst-%d" % (which, 80), h_burst, {"which": which, "n": 80}))
        for bits in (16, 24):
            cs.append(Case("%s-observed-real-%d" % (which, bits), h_observed_real, {"which": which, "bits": bits}))
    for s in range(5):
        cs.append(Case("luba-step-%d" % s, h_luba_step, {"state": s}, width=256 if s == 4 else 64))
        cs.append(Case("sci-step-%d" % s, h_sci_step, {"state": s}))
    cs.append(Case("luba-badlen", h_luba_badlen, {}))
    for ln in range(1, 24):
        cs.append(Case("luba-frame-%d" % ln, h_luba_frame, {"ln": ln}, width=256 if ln >= 8 else 64))
    for ln in ((2, 7, 13, 20, 23) if tier == "quick" else range(1, 24)):
        cs.append(Case("luba-frame-%d-split" % ln, h_luba_frame, {"ln": ln, "chunking": "split"},
                       width=256 if ln >= 8 else 64))
        cs.append(Case("luba-frame-%d-bytes" % ln, h_luba_frame, {"ln": ln, "chunking": "bytes"},
                       width=256 if ln >= 8 else 64))
    nl = 5 if tier == "quick" else 7
    ns = 10 if tier == "quick" else 15
    cs.append(Case("luba-stream-%d" % nl, h_luba_stream, {"n": nl}))
    cs.append(Case("sci-stream-%d" % ns, h_sci_stream, {"n": ns}))
    cs.append(Case("sci-stream-5", h_sci_stream, {"n": 5}))
    return cs
