"""C12 - event messages: scheme fields and instance-type resolution are exact."""
from symx import E, Case
from harness.common import call, newdict
from spec import events as ref

import dali.frame as F
import dali.command as C
import dali.address as A
import dali.device.general as dg
import dali.device.helpers as helpers
import dali.device.pushbutton as pb
import dali.device.occupancy as occ
import dali.device.light as light
import dali.gear  # noqa

META = {
    "level_text": "Bounded symbolic verification of event decoding: the real decoder runs on a fully symbolic "
                  "24-bit event-space frame (all 2^23), without a map and with a DeviceInstanceTypeMapper "
                  "filled through the real add_type (int / address-object / module arguments) with a "
                  "symbolic entry; per path z3 shows every source field and the 10 data bits equal an "
                  "independent reference decoder of IEC 62386-103 Table 3 / 301 / 303 / 304, that map "
                  "resolution equals decoding the instance-scheme frame carrying the type, and that "
                  "retry_decode agrees with decoding under the map.",
    "level_note": "Trusted: z3/cvc5, symx semantics (every path re-run concretely), the reference decoder in "
                  "/verif/spec/events.py (transcribed from the standard, independent of the library). "
                  "Bounds: map with at most one entry (symbolic address 0..63, instance 0..31, type 0..31).",
    "explanation": "symbolic execution of Command.from_frame / _Event.from_frame / from_event_data / "
                   "_set_event_data / get_type / add_type / retry_decode on symbolic frames",
    "bounds": ["all ordered pairs of 24 concrete boundary event frames (types 0..7 x information 0/1023/0x155)",
               "all 2^23 frames with bit 16 = 0, no map", "device/instance frames x map {absent, one entry "
               "with symbolic (short address, instance number, type 0..31)}",
               "map entries created through add_type with int, DeviceShort/InstanceNumber and module arguments",
               "thorough: a second symbolic entry added first (keys may coincide: the later add_type wins)",
               "mapper histories on the untouched DeviceInstanceTypeMapper (concrete keys from a small set, "
               "symbolic frame limited to those keys plus one absent value, symbolic type): look up, add, "
               "look up, clear, add, look up - with retry_decode of the first ambiguous result after every step; "
               "another ambiguous and an unknown event are decoded before every retry; the same history with 18 "
               "concrete frames"],
    "stubs": ["isinstance/int shims", "SymDict registries", "SymKeyDict as the mapper's dict in symbolic mode "
              "(case 'map' only; skipped with a note if the mapper no longer keeps a plain dict in _mapping)"],
    "outside": ["maps with more than one entry (lookups are independent per key)",
                "instance types > 31 in a map", "maps whose get_type raises"],
    "assumptions": [],
}


def _field(ctx, got, want, what, tag):
    if want is None:
        ctx.prove(got is None, "%s is %r but the scheme does not carry it" % (what, got),
                  key=tag + "/absent:" + what)
    else:
        if got is None:
            ctx.fail("%s missing" % what, key=tag + "/missing:" + what)
        else:
            ctx.prove(E.eq(got, want), "%s differs from the frame bits" % what, key=tag + "/field:" + what)


def _check_event(ctx, ev, r, itype, tag):
    """Compare a decoded event object with the reference fields; itype is the
    effective instance type (from the frame or from the map)."""
    want_cls = ref.event_class(itype, r.data)
    name = type(ev).__name__
    ctx.prove(name == want_cls, "decoded as %s, reference says %s" % (name, want_cls),
              key=tag + "/class:%s-vs-%s" % (name, want_cls))
    sa = ev.short_address
    _field(ctx, None if sa is None else sa.address, r.short, "short_address", tag)
    _field(ctx, ev.instance_number, r.inst_number, "instance_number", tag)
    _field(ctx, ev.instance_group, r.inst_group, "instance_group", tag)
    _field(ctx, ev.device_group, r.dev_group, "device_group", tag)
    ctx.prove(E.eq(ev.instance_type, itype), "instance_type differs", key=tag + "/instance_type:" + name)
    ctx.prove(E.eq(ev.frame.as_integer & 0x3FF, r.data), "event information bits differ",
              key=tag + "/databits:" + name)
    d = ev.event_data
    if name == "OccupancyEvent":
        ok = E.and_(E.iff(d.movement, E.bit(r.data, 0)), E.iff(d.occupied, E.bit(r.data, 1)),
                    E.iff(d.repeat, E.bit(r.data, 2)),
                    E.iff(d.sensor_type == "movement", E.bit(r.data, 3)),
                    d.sensor_type in ("movement", "presence"))
        ctx.prove(ok, "occupancy flags differ from the data bits", key=tag + "/occupancy")
        ctx.prove(E.and_(E.iff(ev.movement, E.bit(r.data, 0)), E.iff(ev.occupied, E.bit(r.data, 1)),
                         E.iff(ev.repeat, E.bit(r.data, 2))), "occupancy properties differ",
                  key=tag + "/occupancy-props")
    elif name == "LightEvent":
        ctx.prove(E.eq(d, r.data), "illuminance differs", key=tag + "/illuminance")
        ctx.prove(E.eq(ev.illuminance, r.data), "illuminance property differs", key=tag + "/illuminance-prop")
    elif name == "UnknownEvent":
        ctx.prove(d is not None and E.eq(d, r.data), "unknown event lost its data", key=tag + "/unknown-data")
    else:
        # push button: the class is the data
        ctx.prove(d is None, "push-button event has extra data %r" % (d,), key=tag + "/pb-data")
    return name


def h_nomap(ctx):
    x = ctx.fresh("x", 0, 0xFFFFFF)
    ctx.assume(E.eq(x & 0x10000, 0))
    f = F.ForwardFrame(24, x)
    st, ev = call(C.from_frame, f)
    if st == "exc":
        ctx.fail("decode raised %r" % (ev,), key="nomap/raised:" + type(ev).__name__)
        return "exc"
    r = ref.decode_source(x)
    if r is None:
        ctx.prove(not isinstance(ev, dg._Event), "reserved scheme decoded as an event %s" % type(ev).__name__,
                  key="nomap/reserved")
        ctx.prove(E.eq(ev.frame.as_integer, x), "bits lost", key="nomap/reserved-bits")
        return "not-an-event"
    if not isinstance(ev, dg._Event):
        ctx.fail("event frame decoded as %s" % type(ev).__name__, key="nomap/not-event")
        return "not-event"
    if r.scheme == "device_instance":
        name = type(ev).__name__
        ctx.prove(name == "AmbiguousInstanceType", "device/instance frame without map decoded as " + name,
                  key="nomap/ambiguous")
        _field(ctx, ev.short_address.address if ev.short_address else None, r.short, "short_address", "nomap/amb")
        _field(ctx, ev.instance_number, r.inst_number, "instance_number", "nomap/amb")
        _field(ctx, ev.instance_group, None, "instance_group", "nomap/amb")
        _field(ctx, ev.device_group, None, "device_group", "nomap/amb")
        ctx.prove(E.eq(ev.frame.as_integer, x), "ambiguous event lost bits", key="nomap/amb-bits")
        ctx.prove(ev.event_data is not None and E.eq(ev.event_data, r.data), "ambiguous event lost its data",
                  key="nomap/amb-data")
        ctx.prove(ev.retry_decode(helpers.DeviceInstanceTypeMapper()) is None,
                  "retry with an empty map returned something", key="nomap/amb-retry-empty")
        return "ambiguous"
    name = _check_event(ctx, ev, r, r.inst_type, "nomap/" + r.scheme)
    ctx.observe("text", str(ev))
    return r.scheme + ":" + name


_BOUNDARY = []


def _boundary_frames():
    """Concrete event frames that carry their instance type, one per (type 0..7, event information 0 / 1023 /
    a middle value), found by searching the reference decoder."""
    if not _BOUNDARY:
        want = {(t, d) for t in range(8) for d in (0, 1023, 0x155)}
        for top in range(0, 1 << 14):
            if not want:
                break
            if top & 0x40:          # bit 16 of the frame: a command, not an event
                continue
            for d in (0, 1023, 0x155):
                x = (top << 10) | d
                r = ref.decode_source(x)
                if r is not None and r.scheme != "device_instance" and (r.inst_type, d) in want:
                    want.discard((r.inst_type, d))
                    _BOUNDARY.append(x)
    return _BOUNDARY


def h_nomap_pair(ctx):
    """Two event frames decoded one after the other in one process (all pairs of a boundary set: every instance
    type with the smallest, the largest and a middle event information): the second decoding is what it would
    have been on its own - nothing remembered from one frame may be taken for another."""
    fr = _boundary_frames()
    a = fr[ctx.fresh_choice("first", len(fr))]
    b = fr[ctx.fresh_choice("second", len(fr))]
    label = ""
    for which, x in (("first", a), ("second", b)):
        st, ev = call(C.from_frame, F.ForwardFrame(24, x))
        if st == "exc" or not isinstance(ev, dg._Event):
            ctx.fail("decode of %06x gave %r" % (x, ev), key="pair/%s-not-event" % which)
            return "exc"
        r = ref.decode_source(x)
        label = _check_event(ctx, ev, r, r.inst_type, "pair/" + which)
        ctx.prove(ev.frame.as_integer == x, "bits of the %s frame changed" % which, key="pair/%s-bits" % which)
    return label


def _mkmap(ctx, extra=0):
    m = helpers.DeviceInstanceTypeMapper()
    m._mapping = newdict(ctx)
    others = []
    for e in range(extra):
        # other entries (symbolic; NOT assumed distinct from the entry under test: a later
        # add_type for the same key must win)
        xa, xi, xt = ctx.fresh("xa%d" % e, 0, 63), ctx.fresh("xi%d" % e, 0, 31), ctx.fresh("xt%d" % e, 0, 31)
        m.add_type(short_address=xa, instance_number=xi, instance_type=xt)
        others.append((xa, xi, xt))
    m.others = others
    if not ctx.fresh_bool("has_entry"):
        return m, None
    ka = ctx.fresh("ka", 0, 63)
    ki = ctx.fresh("ki", 0, 31)
    form = ctx.fresh_choice("form", 4)
    if form == 3:
        which = ctx.fresh_choice("module", 3)
        mod = [pb, occ, light][which]
        t = [1, 3, 4][which]
        m.add_type(short_address=A.DeviceShort(ka), instance_number=ki, instance_type=mod)
    else:
        t = ctx.fresh("t", 0, 31)
        if form == 0:
            m.add_type(short_address=ka, instance_number=ki, instance_type=t)
        elif form == 1:
            m.add_type(short_address=A.DeviceShort(ka), instance_number=A.InstanceNumber(ki),
                       instance_type=t)
        else:
            m.add_type(short_address=ka, instance_number=A.InstanceNumber(ki), instance_type=t)
    return m, (ka, ki, t)


def _swappable():
    return type(getattr(helpers.DeviceInstanceTypeMapper(), "_mapping", None)) is dict


def h_map(ctx, extra=0):
    if not _swappable():
        # the mapper no longer keeps one plain dict in `_mapping`: symbolic keys cannot be given to it;
        # the history cases below (concrete keys, mapper untouched) still exercise it
        ctx.note("mapper-internals-changed:symbolic-key-case-skipped")
        return "skipped: mapper internals restructured"
    x = ctx.fresh("x", 0, 0xFFFFFF)
    ctx.assume(E.eq(x & 0x818000, 0x008000))      # device/instance scheme
    m, entry = _mkmap(ctx, extra)

    f = F.ForwardFrame(24, x)
    st, ev = call(C.from_frame, f, dev_inst_map=m)
    if st == "exc":
        ctx.fail("decode raised %r" % (ev,), key="map/raised:" + type(ev).__name__)
        return "exc"
    r = ref.decode_source(x)
    hit = entry is not None and bool(E.and_(E.eq(entry[0], r.short), E.eq(entry[1], r.inst_number)))
    if not hit:
        # an earlier entry may resolve the frame instead (the last matching one wins)
        for xa, xi, xt in reversed(getattr(m, "others", [])):
            if bool(E.and_(E.eq(xa, r.short), E.eq(xi, r.inst_number))):
                hit, entry = True, (xa, xi, xt)
                break
    # what an ambiguous decode + later retry gives
    st0, amb = call(C.from_frame, F.ForwardFrame(24, x))
    if st0 == "exc" or type(amb).__name__ != "AmbiguousInstanceType":
        ctx.fail("map-less decode is %r" % (amb,), key="map/mapless")
        return "mapless?"
    call(C.from_frame, F.ForwardFrame(24, x ^ 0x020401))      # other events decoded in the meantime
    call(C.from_frame, F.ForwardFrame(24, 0xBF8155))
    ctx.prove(E.eq(amb.frame.as_integer, x), "an ambiguous event changed while other frames were decoded",
              key="map/amb-changed")
    st1, again = call(amb.retry_decode, m)
    if st1 == "exc":
        ctx.fail("retry_decode raised %r" % (again,), key="map/retry-raised")
        return "retry-exc"
    if not hit:
        ctx.prove(type(ev).__name__ == "AmbiguousInstanceType",
                  "no map entry but decoded as %s" % type(ev).__name__, key="map/miss-class")
        ctx.prove(E.eq(ev.frame.as_integer, x), "ambiguous event lost bits", key="map/miss-bits")
        ctx.prove(again is None, "retry_decode without a matching entry returned %r" % (again,),
                  key="map/miss-retry")
        return "miss"
    t = entry[2]
    name = _check_event(ctx, ev, r, t, "map/hit")
    ctx.prove(E.eq(ev.frame.as_integer, x), "resolved event does not re-encode to the frame",
              key="map/hit-bits:" + name)
    # equivalence with the instance-scheme frame that carries the type itself
    y = 0x808000 | (t << 17) | (r.inst_number << 10) | r.data
    st2, ev2 = call(C.from_frame, F.ForwardFrame(24, y))
    if st2 == "exc" or type(ev2) is not type(ev):
        ctx.fail("instance-scheme frame with the same type decodes as %r" % (ev2,),
                 key="map/equiv-class:" + name)
    else:
        d1, d2 = ev.event_data, ev2.event_data
        same = (d1 == d2) if not isinstance(d1, int) and type(d1).__name__ != "SymInt" else E.eq(d1, d2)
        ctx.prove(same, "event data differs from the instance-scheme decode", key="map/equiv-data:" + name)
    # retry_decode == decode with the map
    if again is None or type(again) is not type(ev):
        ctx.fail("retry_decode gave %r, decode with map gave %s" % (again, name), key="map/retry-class:" + name)
    else:
        ctx.prove(E.eq(again.frame.as_integer, ev.frame.as_integer), "retry_decode re-encodes differently",
                  key="map/retry-bits:" + name)
        ctx.prove(ctx.text_equal(str(again), str(ev)), "retry_decode renders differently",
                  key="map/retry-text:" + name)
    ctx.observe("text", str(ev))
    return "hit:" + name


SMALL_ADDR = (37, 63)
SMALL_INST = (0, 31)


def h_map_history(ctx, steps, concrete=False):
    """The library's mapper exactly as it is (nothing replaced), driven through its public methods with
    concrete keys from a small set while the frame stays symbolic (its address / instance fields limited to
    the small sets plus one value that is never in the map): look up before the entry exists, add it, look
    up again, add a second entry (possibly for the same key, possibly for the same device), look up again;
    retry_decode of the first, ambiguous result after every change.  steps = the operations after the first
    lookup, from 'add', 'add2', 'clear'."""
    if concrete:
        # concrete frames (a decoder that keys a cache by the frame's number would have to hash a symbolic one)
        reps = [(sa << 17) | 0x8000 | (inst << 10) | d for sa in SMALL_ADDR + (5,) for inst in SMALL_INST + (9,)
                for d in (0, 0x155)]
        x = reps[ctx.fresh_choice("xi", len(reps))]
    else:
        x = ctx.fresh("x", 0, 0xFFFFFF)
        ctx.assume(E.eq(x & 0x818000, 0x008000))
    r = ref.decode_source(x)
    if not concrete:
        ctx.assume(E.or_(*[E.eq(r.short, v) for v in SMALL_ADDR + (5,)]))
        ctx.assume(E.or_(*[E.eq(r.inst_number, v) for v in SMALL_INST + (9,)]))
    m = helpers.DeviceInstanceTypeMapper()
    entries = []

    def lookup(tag):
        st, ev = call(C.from_frame, F.ForwardFrame(24, x), dev_inst_map=m)
        if st == "exc":
            ctx.fail("decode raised %r" % (ev,), key=tag + "/raised:" + type(ev).__name__)
            return None
        want = None
        for ka, ki, t in reversed(entries):
            if bool(E.and_(E.eq(ka, r.short), E.eq(ki, r.inst_number))):
                want = t
                break
        if want is None:
            ctx.prove(type(ev).__name__ == "AmbiguousInstanceType", "no entry for the frame's device/instance, "
                      "decoded as %s" % type(ev).__name__, key=tag + "/miss-class")
        else:
            _check_event(ctx, ev, r, want, tag + "/hit")
        ctx.prove(E.eq(ev.frame.as_integer, x), "decoded event does not re-encode to the frame", key=tag + "/bits")
        return ev, want

    def retry(amb, tag, now):
        # other events are decoded in the meantime (another ambiguous one, an unknown one): the event kept
        # for the retry must still be the event it was
        call(C.from_frame, F.ForwardFrame(24, x ^ 0x020401))
        call(C.from_frame, F.ForwardFrame(24, 0xBF8155))
        st, again = call(amb.retry_decode, m)
        if st == "exc":
            ctx.fail("retry_decode raised %r" % (again,), key=tag + "/retry-raised")
            return
        ev, want = now
        if want is None:
            ctx.prove(again is None, "retry_decode without a matching entry returned %r" % (again,),
                      key=tag + "/retry-miss")
        elif again is None or type(again) is not type(ev):
            ctx.fail("retry_decode gave %r, decoding with the map gives %s" % (again, type(ev).__name__),
                     key=tag + "/retry-class")
        else:
            ctx.prove(E.eq(again.frame.as_integer, x), "retry_decode re-encodes differently", key=tag + "/retry-bits")
            ctx.prove(ctx.text_equal(str(again), str(ev)), "retry_decode renders differently",
                      key=tag + "/retry-text")

    first = lookup("history/empty")
    if first is None:
        return "exc"
    amb = first[0]
    if type(amb).__name__ != "AmbiguousInstanceType":
        return "not-ambiguous"
    labels = []
    for n, step in enumerate(steps):
        tag = "history/%d-%s" % (n, step)
        if step == "clear":
            m.clear()
            entries[:] = []
        else:
            ka = SMALL_ADDR[ctx.fresh_choice("ka%d" % n, len(SMALL_ADDR))]
            ki = SMALL_INST[ctx.fresh_choice("ki%d" % n, len(SMALL_INST))]
            t = ctx.fresh("t%d" % n, 0, 31)
            # which event class the type selects is h_map's / h_nomap's subject: two types suffice here
            ctx.assume(E.or_(E.eq(t, 4), E.eq(t, 20)))
            form = ctx.fresh_choice("form%d" % n, 2) if n == 0 else 0
            if form == 0:
                m.add_type(short_address=ka, instance_number=ki, instance_type=t)
            else:
                m.add_type(short_address=A.DeviceShort(ka), instance_number=A.InstanceNumber(ki), instance_type=t)
            entries.append((ka, ki, t))
        now = lookup(tag)
        if now is None:
            return "exc"
        retry(amb, tag, now)
        labels.append("miss" if now[1] is None else "hit")
    return ",".join(labels)


def cases(tier):
    cs = [Case("nomap", h_nomap, {}), Case("map", h_map, {}), Case("nomap-pair", h_nomap_pair, {}),
          Case("map-history-add", h_map_history, {"steps": ("add",)}),
          Case("map-history-add-clear-add", h_map_history, {"steps": ("add", "clear", "add")}),
          Case("map-history-concrete", h_map_history, {"steps": ("add", "clear", "add"), "concrete": True})]
    if tier == "thorough":
        cs.append(Case("map-history-add-add", h_map_history, {"steps": ("add", "add2")}))
    if tier == "thorough":
        cs.append(Case("map-2", h_map, {"extra": 1}))
    return cs
