"""C11 - memory values decode any raw bytes totally and per the DiiA/IEC layout."""
import importlib
from decimal import Decimal

from symx import E, Case
from symx.core import SymInt
from harness.common import call, mkbytes
from spec import memory_map as MM

import dali.memory.location as L
import dali.memory.info, dali.memory.oem, dali.memory.energy  # noqa
import dali.memory.diagnostics, dali.memory.maintenance  # noqa

META = {
    "level_text": "Bounded symbolic verification of every declared memory value: a fully symbolic raw byte "
                  "string of the value's real length (1..8 bytes; strings 24 and 60 bytes) is pushed through "
                  "the real from_list / check_raw / raw_to_value; per path z3 shows it never raises and that "
                  "kind (value / MASK / TMASK / Invalid) and value equal a reference decoder built from the "
                  "independently transcribed layout table (encoding kind, scale, offset, width) and flag "
                  "table (MASK/TMASK support, limits, signedness); the same for synthetic signed values "
                  "declared through the library's metaclass; value_to_raw/raw_to_value round trips for "
                  "symbolic in-range numbers and symbolic ASCII strings; the whole declared map is compared "
                  "with the table (bank, first location, width, memory type, lock byte), overlaps included.",
    "level_note": "Trusted: layout transcription in /verif/spec/memory_map.py (IEC 62386-102 9.10.6, DiiA "
                  "251-253) incl. the flag table FLAGS (cells the transcriber could not recall independently "
                  "pin the library's behaviour at the pinned commit); z3/cvc5; symx semantics incl. int.from_bytes/to_bytes, bytes.split/decode and "
                  "int*Decimal text tokens (each path re-run concretely).",
    "explanation": "symbolic execution of MemoryValue.from_list/check_raw/is_valid/raw_to_value/value_to_raw",
    "bounds": ["pairs of different numeric value classes of equal width decoded one after the other (quick: every third pair)",
               "every declared value with all bytes symbolic (numbers up to 8 bytes = 2^64 values; strings "
               "of 24 and 60 symbolic bytes)", "inverse direction: symbolic in-range numbers, symbolic ASCII "
               "strings of every length 0..field width (quick: 0..8 and the full width)",
               "MASK/TMASK support, limits and (un)signedness of every value compared with the flag table "
               "spec/memory_map.FLAGS; the reference decoder uses the table, not the class",
               "18 synthetic numeric values declared by the harness through the library's metaclass: signed "
               "and unsigned, 1..3 bytes, with MASK+TMASK / TMASK+limit / limits only (sign-aware patterns)"],
    "stubs": ["isinstance/int/bytes/pow shims", "SymBytes split/decode, SymStr encode"],
    "outside": ["independence of the flag table: cells the transcriber could not recall were taken over from "
                "the library at the pinned commit (they pin the behaviour)",
                "Decimal arithmetic beyond int x Decimal factor"],
    "assumptions": [],
}


def _find(row):
    mod, bank, name = row[0], row[1], row[2]
    return getattr(importlib.import_module(mod), name, None)


def _int_be(bs, signed=False):
    acc = 0
    for b in bs:
        acc = (acc << 8) | b
    if signed:
        n = 8 * len(bs)
        acc = E.ite(E.ge(acc, 1 << (n - 1)), acc - (1 << n), acc)
    return acc


def _is_pattern(bs, pattern):
    return E.and_(*[E.eq(b, p) for b, p in zip(bs, pattern)])


def _patterns(signed, n):
    """MASK / TMASK byte patterns of an n-byte field (sign aware)."""
    if signed:
        mask = [0x7F] + [0xFF] * (n - 1)
        tmask = [0x7F] + [0xFF] * (n - 2) + [0xFE] if n > 1 else [0x7E]
    else:
        mask = [0xFF] * n
        tmask = [0xFF] * (n - 1) + [0xFE]
    return mask, tmask


def _num_equal(ctx, got, want):
    """got may be int / SymInt / SymScaled / float / Decimal; want = (base, factor or None)."""
    base, factor = want
    if factor is None:
        ok = isinstance(got, int) or type(got) is SymInt
        return E.and_(ok, E.eq(got, base)) if ok else False
    if type(got).__name__ == "SymScaled":
        return E.and_(float(got.factor) == float(factor), E.eq(got.base, base))
    if type(base) is SymInt:
        return False
    if isinstance(got, Decimal) and isinstance(factor, Decimal):
        # 'returned as Decimals to preserve precision': exact
        import decimal
        return got == decimal.Context(prec=80).multiply(Decimal(base), factor)
    return abs(float(got) - float(factor) * base) <= 1e-9 * max(1.0, abs(float(got)))


# ---- synthetic values: the generic machinery (sign handling, MASK/TMASK patterns, limits) on value
# classes declared by the harness through the library's own metaclass.  No value shipped with the library
# is signed, so sign-awareness can only be exercised this way.

SYN_BANK = L.MemoryBank(address=0xBE, last_address=0x60, has_lock=True)
SYN = []       # (row, class, (mask, tmask, min, max), signed)


def _declare_synthetic():
    first = 3
    for signed in (False, True):
        for width in (1, 2, 3):
            top = (1 << (8 * width - (1 if signed else 0))) - 1
            for fl, (mask, tmask, mn, mx) in (("mt", (True, True, None, None)), ("t", (False, True, None, top - 2)),
                                              ("lim", (False, False, -5 if signed else 3, 100))):
                name = "Syn%s%d%s" % ("S" if signed else "U", width, fl)
                attrs = {"bank": SYN_BANK, "signed": signed, "mask_supported": mask, "tmask_supported": tmask,
                         "min_value": mn, "max_value": mx,
                         "locations": tuple(L.MemoryLocation(first + i, type_=L.MemoryType.NVM_RW)
                                            for i in range(width))}
                cls = type(L.NumericValue)(name, (L.NumericValue,), attrs)
                row = ("harness", "SYN_BANK", name, 0xBE, first, width, "NVM_RW", "num", None)
                SYN.append((row, cls, (mask, tmask, mn, mx), signed))
                first += width


_declare_synthetic()


def h_decode(ctx, idx, synthetic=False):
    if synthetic:
        row, cls, flags, signed = SYN[idx]
    else:
        row = MM.ROWS[idx]
        cls, flags, signed = _find(row), MM.flags(row[2]), False      # no value of the standards is signed
    mod, bank, name, bankno, first, width, mtype, kind, param = row
    tag = "%s/%s" % (bank, name)
    if cls is None:
        ctx.fail("no value class %s in %s" % (name, mod), key=tag + "/missing")
        return "missing"
    bs = [ctx.fresh("b%d" % i, 0, 255) for i in range(width)]
    image = [None] * 256
    for i, b in enumerate(bs):
        image[first + i] = b
    st, got = call(cls.from_list, image)
    if st == "exc":
        ctx.fail("from_list raised %r" % (got,), key=tag + "/raised:" + type(got).__name__)
        return "raised"
    # direct entry points agree
    st2, flag = call(cls.check_raw, mkbytes(bs))
    if st2 == "exc":
        ctx.fail("check_raw raised %r" % (flag,), key=tag + "/check_raw-raised")
    # ---- reference
    payload = bs[1:] if kind == "scaled" else bs
    n = len(payload)
    mask_p, tmask_p = _patterns(signed, n)
    sup_mask, sup_tmask, mn, mx = flags
    is_mask = E.and_(sup_mask, _is_pattern(payload, mask_p))
    is_tmask = E.and_(sup_tmask, _is_pattern(payload, tmask_p))
    v = _int_be(payload, signed) if kind not in ("str", "raw") else 0
    special = (param or {}).get("special", {}) if isinstance(param, dict) else {}
    is_special = E.or_(*[E.eq(v, c) for c in special]) if special else False
    if kind == "scaled":
        bad_scale = E.and_(E.gt(bs[0], 6), E.lt(bs[0], 0xFA))
    else:
        bad_scale = False
    if kind == "bin":
        invalid = E.not_(E.or_(E.eq(bs[0], 0), E.eq(bs[0], 1)))
    elif kind in ("num", "fixed", "temp", "scaled", "ver"):
        invalid = E.and_(E.not_(is_special),
                         E.or_(E.lt(v, mn) if mn is not None else False, E.gt(v, mx) if mx is not None else False))
    else:
        invalid = False
    if got is L.FlagValue.MASK:
        ctx.prove(E.and_(E.not_(bad_scale), is_mask), "MASK reported for another pattern", key=tag + "/mask")
        return "MASK"
    if got is L.FlagValue.TMASK:
        ctx.prove(E.and_(E.not_(bad_scale), E.not_(is_mask), is_tmask), "TMASK reported for another pattern",
                  key=tag + "/tmask")
        return "TMASK"
    if got is L.FlagValue.Invalid:
        if kind == "str":
            # (comparisons below are already decided by the path condition of the decode)
            nonascii = False
            for b in bs:
                if b == 0:
                    break
                if b > 127:
                    nonascii = True
                    break
            ctx.prove(nonascii, "Invalid reported for a clean ASCII string", key=tag + "/invalid-str")
        else:
            ctx.prove(E.or_(bad_scale, E.and_(E.not_(is_mask), E.not_(is_tmask), invalid)),
                      "Invalid reported for an in-range value", key=tag + "/invalid")
        return "Invalid"
    # a value: no flag condition may hold
    ctx.prove(E.not_(E.or_(bad_scale, is_mask, is_tmask, invalid)),
              "value returned although the bytes are MASK / TMASK / out of range", key=tag + "/flag-missed")
    if kind == "num" and isinstance(got, str):
        want = [t for c, t in special.items() if bool(E.eq(v, c))]
        ctx.prove(bool(want) and got == want[0], "text %r for a code without that meaning" % (got,),
                  key=tag + "/special")
    elif kind == "num":
        ctx.prove(E.not_(is_special), "special code decoded as a plain number", key=tag + "/special-missed")
        ctx.prove(_num_equal(ctx, got, (v, None)), "number differs from the big-endian bytes", key=tag + "/value")
    elif kind == "fixed":
        ctx.prove(_num_equal(ctx, got, (v, param if not isinstance(param, int) else None))
                  if not isinstance(param, int) else _num_equal(ctx, got, (v * param, None)),
                  "scaled number differs from bytes x %r" % (param,), key=tag + "/value")
    elif kind == "temp":
        ctx.prove(_num_equal(ctx, got, (v - 60, None)), "temperature differs from bytes - 60", key=tag + "/value")
    elif kind == "scaled":
        e = _int_be(bs[:1], True)
        e = e if isinstance(e, int) else e.concretize()
        ctx.prove(_num_equal(ctx, got, (v, Decimal(10) ** e)), "energy/power differs from bytes x 10^%d" % e,
                  key=tag + "/value")
    elif kind == "bin":
        ctx.prove(got is True or got is False, "boolean value is %r" % (got,), key=tag + "/bool-type")
        ctx.prove(E.iff(got, E.eq(bs[0], 1)), "boolean differs from byte == 1", key=tag + "/value")
    elif kind == "ver":
        if width == 1:
            if got == "not implemented":
                ctx.prove(E.eq(bs[0], 0xFF), "'not implemented' for a byte other than 0xFF", key=tag + "/ver-ni")
            else:
                ctx.prove(E.ne(bs[0], 0xFF), "0xFF not reported as not implemented", key=tag + "/ver-ni-missed")
                ctx.prove(ctx.text_equal(got, "%s.%s" % (bs[0] >> 2, bs[0] & 3)), "version text differs",
                          key=tag + "/value")
        else:
            ctx.prove(ctx.text_equal(got, "%s.%s" % (bs[0], bs[1])), "version text differs", key=tag + "/value")
    elif kind == "raw":
        want = "reserved"
        for code, text in MM.LIGHT_DISTRIBUTION.items():
            if bs[0] == code:
                want = text
        ctx.prove(got == want, "light distribution %r, expected %r" % (got, want), key=tag + "/value")
    elif kind == "str":
        # characters up to the first NUL
        chars = []
        for b in bs:
            if b == 0:
                break
            chars.append(b)
        st3, enc = call(lambda: got.encode("ascii"))
        ok = st3 == "ok" and len(enc) == len(chars)
        ctx.prove(ok and E.and_(*[E.eq(x, y) for x, y in zip(enc, chars)]) if chars else ok,
                  "string differs from the bytes before the first NUL", key=tag + "/value")
        return "str%d" % len(chars)
    ctx.observe("value", got if not isinstance(got, str) else got)
    return "value"


def h_inverse(ctx, idx, strlen, synthetic=False):
    if synthetic:
        row, cls, flags, signed = SYN[idx]
    else:
        row = MM.ROWS[idx]
        cls, signed = _find(row), False
    mod, bank, name, bankno, first, width, mtype, kind, param = row
    tag = "%s/%s" % (bank, name)
    if kind == "num":
        if signed:
            v = ctx.fresh("v", -(1 << (8 * width - 1)), (1 << (8 * width - 1)) - 1)
        else:
            v = ctx.fresh("v", 0, (1 << (8 * width)) - 1)
        for c in ((param or {}).get("special", {}) if isinstance(param, dict) else {}):
            ctx.assume(E.ne(v, c))          # codes with a textual meaning are not plain numbers
        st, raw = call(cls.value_to_raw, v)
        if st == "exc":
            ctx.fail("value_to_raw raised %r for an in-range number" % (raw,), key=tag + "/to_raw-raised")
            return "raised"
        ctx.prove(len(raw) == width, "raw length %d" % len(raw), key=tag + "/to_raw-len")
        st, back = call(cls.raw_to_value, raw)
        ctx.prove(st == "ok" and _num_equal(ctx, back, (v, None)), "raw_to_value(value_to_raw(v)) != v",
                  key=tag + "/roundtrip")
        for lit, attr in (("MASK", "mask"), ("TMASK", "tmask")):
            if getattr(cls, attr + "_supported"):
                st, r = call(cls.value_to_raw, lit)
                ctx.prove(st == "ok" and cls.check_raw(r) is L.FlagValue[lit], "%s literal does not encode to "
                          "the %s pattern" % (lit, lit), key=tag + "/literal-" + lit)
        return "num"
    if kind == "str":
        cs = [ctx.fresh("c%d" % i, 1, 127) for i in range(strlen)]
        if ctx.symbolic:
            from symx import shims
            sval = shims.SymStr(cs)
        else:
            sval = "".join(chr(c) for c in cs)
        st, raw = call(cls.value_to_raw, sval)
        if st == "exc":
            ctx.fail("value_to_raw raised %r for a %d-character ASCII string" % (raw, strlen),
                     key=tag + "/to_raw-raised")
            return "raised"
        ctx.prove(len(raw) <= width and len(raw) >= min(strlen + 1, width), "raw length %d" % len(raw),
                  key=tag + "/to_raw-len")
        st, back = call(cls.raw_to_value, raw)
        if st == "exc":
            ctx.fail("raw_to_value raised %r" % (back,), key=tag + "/roundtrip-raised")
            return "raised"
        ok = back == sval
        ctx.prove(ok, "string round trip differs", key=tag + "/roundtrip")
        # one character too many must be refused
        return "str%d" % strlen
    return "n/a"


def h_layout(ctx):
    """Concrete comparison of the declared memory map with the table."""
    seen = set()
    for row in MM.ROWS:
        mod, bank, name, bankno, first, width, mtype, kind, param = row
        cls = _find(row)
        tag = "%s/%s" % (bank, name)
        if cls is None:
            ctx.fail("value %s missing" % name, key=tag + "/missing")
            continue
        seen.add(cls)
        bobj = getattr(importlib.import_module(mod), bank)
        locs = [l.address for l in cls.locations]
        ctx.prove(cls.bank is bobj and bobj.address == bankno, "declared in bank %r" % (cls.bank,), key=tag + "/bank")
        ctx.prove(locs == list(range(first, first + width)), "locations %s, table says %d..%d"
                  % (locs, first, first + width - 1), key=tag + "/locations")
        types = [l.type_.name for l in cls.locations]
        want = [mtype] * width if isinstance(mtype, str) else [mtype[0]] + [mtype[1]] * (width - 1)
        ctx.prove(types == want, "memory types %s, table says %s" % (sorted(set(types)), mtype), key=tag + "/memtype")
        have = (bool(getattr(cls, "mask_supported", False)), bool(getattr(cls, "tmask_supported", False)),
                getattr(cls, "min_value", None), getattr(cls, "max_value", None))
        ctx.prove(have == MM.flags(name), "MASK/TMASK support and limits %r, table says %r" % (have, MM.flags(name)),
                  key=tag + "/flags")
        ctx.prove(not getattr(cls, "signed", False), "declared signed; no value of these banks is", key=tag + "/signed")
    for bname, (mod, number, last, has_lock, has_latch) in MM.BANK_HEADERS.items():
        b = getattr(importlib.import_module(mod), bname, None)
        tag = bname
        if b is None:
            ctx.fail("bank %s missing" % bname, key=tag + "/missing")
            continue
        ctx.prove(b.address == number, "bank number %r" % b.address, key=tag + "/number")
        ctx.prove(b.has_lock == has_lock and b.has_latch == has_latch, "lock/latch flags %r/%r"
                  % (b.has_lock, b.has_latch), key=tag + "/lock-latch")
        ctx.prove(b.LastAddress.locations[0].default == last, "last location default %r, table says %r"
                  % (b.LastAddress.locations[0].default, last), key=tag + "/last")
        # no overlaps; lockable only with a lock byte; every declared value has a row
        used = {}
        for v in b.values:
            for l in v.locations:
                ctx.prove(l.address not in used, "%s overlaps %s at %d" % (v.__name__, used.get(l.address), l.address),
                          key=tag + "/overlap")
                used[l.address] = v.__name__
                if l.type_ == L.MemoryType.NVM_RW_L:
                    ctx.prove(b.has_lock, "lockable location in a bank without lock byte", key=tag + "/lockable")
            if v is not b.LastAddress and v is not b.LockByte:
                ctx.prove(v in seen, "declared value %s has no row in the layout table (unchecked)" % v.__name__,
                          key=tag + "/unchecked:" + v.__name__)
        if b.LockByte is not None:
            ctx.prove([l.address for l in b.LockByte.locations] == [2], "lock byte not at location 2",
                      key=tag + "/lockbyte")
    return "rows=%d" % len(MM.ROWS)


def h_decode_pair(ctx, first, second):
    """Two different value classes decoded one after the other in one process, the second one from bytes that may
    equal the first one's: nothing remembered from one class's decoding may leak into another's."""
    with ctx.namespace("p."):
        h_decode(ctx, first)
    return h_decode(ctx, second)


def _pairs():
    fixed = [(i, r) for i, r in enumerate(MM.ROWS) if r[7] in ("fixed", "num", "temp") and r[5] <= 2]
    out = []
    for n, (i, r) in enumerate(fixed):
        for j, q in fixed[n + 1:] + fixed[:n]:
            if q[5] == r[5] and (q[7], q[8]) != (r[7], r[8]):
                out.append((i, j))
                break
    return out


def cases(tier):
    cs = [Case("layout", h_layout, {})]
    for n, (i, j) in enumerate(_pairs()):
        if tier != "quick" or n % 3 == 0:
            cs.append(Case("decode-after-%s-%s" % (MM.ROWS[i][2], MM.ROWS[j][2]), h_decode_pair,
                           {"first": i, "second": j}, width=128))
    for i, (row, cls, flags, signed) in enumerate(SYN):
        cs.append(Case("decode-synthetic-%s" % row[2], h_decode, {"idx": i, "synthetic": True}, width=128))
        cs.append(Case("inverse-synthetic-%s" % row[2], h_inverse, {"idx": i, "strlen": 0, "synthetic": True},
                       width=128))
    # two decodes in one process with independent bytes (patterns computed once must not be reused wrongly)
    for i, r in enumerate(MM.ROWS):
        if r[5] <= 2 and r[7] in ("num", "fixed", "temp", "bin") and i % (4 if tier == "quick" else 1) == 0:
            cs.append(Case("decode-twice-%s-%s" % (r[1], r[2]), h_decode, {"idx": i}, width=128, repeat=2))
    for i, r in enumerate(MM.ROWS):
        cs.append(Case("decode-%s-%s" % (r[1], r[2]), h_decode, {"idx": i}, width=128))
        if r[7] == "num":
            cs.append(Case("inverse-%s-%s" % (r[1], r[2]), h_inverse, {"idx": i, "strlen": 0}, width=128))
        elif r[7] == "str":
            w = r[5]
            lens = list(range(0, 9)) + [w - 1, w] if tier == "quick" else list(range(0, w + 1))
            for n in sorted(set(lens)):
                cs.append(Case("inverse-%s-%s-%d" % (r[1], r[2], n), h_inverse, {"idx": i, "strlen": n}, width=128))
    return cs
