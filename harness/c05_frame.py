"""C05 - Frame behaves as a fixed-width unsigned bit vector under all operations.

History quantifier discharged by one inductive step from an arbitrary valid
state: state = (symbolic width b, symbolic data with 0 <= data < 2^b), one
operation with arbitrary arguments, post-condition = representation invariant
+ agreement with the reference bit-vector model written here with shifts and
masks over the symbolic integers.
"""
from symx import E, Case
from harness.common import call, mask, mkbytes

import dali.frame as F

META = {
    "level_text": "Bounded symbolic verification of dali.frame.Frame: for every width 1..64 (quick 1..24), "
                  "every stored value and every operation argument in the stated ranges, z3 shows that one "
                  "operation from an arbitrary valid state matches a reference bit-vector model, keeps "
                  "0 <= value < 2^width, and that rejected operations raise the documented exception and "
                  "leave the frame unchanged; by induction this covers operation histories of any length.",
    "level_note": "Trusted: z3 (cvc5 cross-checks dumped obligations), the symx integer semantics "
                  "(cross-validated against a concrete run of the same path on the un-instrumented code), "
                  "CPython. Bounds: width <= 64, index/value ranges as listed in evidence.bounds.",
    "explanation": "bounded symbolic execution of the real dali.frame code; every comparison on "
                   "a symbolic width/index/value is decided by z3 and both outcomes explored; "
                   "the post-state of one operation from an arbitrary valid frame state is "
                   "compared with a reference bit-vector model by unsat queries",
    "bounds": ["bit clear and slice write on the result of a concatenation",
               "frame width 1..64 (quick: 1..24)", "indices -2..width+2",
               "written values -2..2^(width+1)", "bit-vector width of the encoding 128",
               "one operation per path from an arbitrary valid state (inductive step)",
               "three-step histories read-views / write / read-views / write / read-views, width <= 12 "
               "(thorough 40): hidden state such as cached views is covered",
               "two live frames of independent symbolic widths <= 6 (thorough 9): the same kind of write on "
               "each, views, concatenation - nothing learnt from one frame may be applied to the other",
               "`f += g` with another reference to f alive (the object keeps its length)",
               "equality across Frame / ForwardFrame / BackwardFrame / BackwardFrameError of eight bits",
               "byte-sequence constructor: up to 9 bytes", "pack_len(l): l in 0..10"],
    "stubs": ["builtins isinstance/int/bytes shims (accept SymInt)",
              "int.to_bytes / int.from_bytes / int.bit_length modelled by symx"],
    "outside": ["widths > 64", "Frame.__str__ formatting", "bool passed as index"],
    "assumptions": ["z3 decides QF_BV queries correctly (cvc5 re-checks the dumped obligations)",
                    "symx integer operators match Python int semantics within 126 bits "
                    "(cross-validated concretely on every path)"],
}


def _state(ctx, B, tag=""):
    b = ctx.fresh("b" + tag, 1, B)
    d = ctx.fresh("d" + tag, 0, (1 << B) - 1)
    ctx.assume(E.lt(d, 1 << b))
    return b, d


def _mk(b, d, cls=F.Frame):
    return cls(b, d)


def _unchanged(ctx, f, b, d, what):
    ctx.prove(E.and_(E.eq(f.__len__(), b), E.eq(f.as_integer, d)),
              what + ": frame changed by a rejected/read-only operation", key=what + "/changed")


def _inv(ctx, f, b, what):
    ctx.prove(E.and_(E.eq(f.__len__(), b), E.ge(f.as_integer, 0),
                     E.lt(f.as_integer, 1 << b)),
              what + ": invariant 0 <= value < 2^width broken or width changed",
              key=what + "/invariant")


# --- constructors -------------------------------------------------------------

def h_ctor_int(ctx, B):
    b = ctx.fresh("b", -1, B)
    d = ctx.fresh("d", -2, (1 << (B + 1)))
    st, r = call(F.Frame, b, d)
    legal = E.and_(E.ge(b, 1), E.ge(d, 0), E.lt(d, 1 << E.ite(E.ge(b, 0), b, 0)))
    if st == "exc":
        ctx.prove(E.not_(legal), "constructor rejected legal (bits, data)", key="ctor/legal-rejected",
                  detail=repr(r))
        ctx.prove(isinstance(r, ValueError), "constructor raised %s" % type(r).__name__,
                  key="ctor/exc-type")
        return "reject:" + type(r).__name__
    ctx.prove(legal, "constructor accepted illegal (bits, data)", key="ctor/illegal-accepted")
    ctx.prove(E.and_(E.eq(r.__len__(), b), E.eq(r.as_integer, d)), "constructor stored other value",
              key="ctor/value")
    ctx.prove(r.error is False, "fresh frame has error flag", key="ctor/error")
    ctx.observe("data", r.as_integer)
    return "ok"


def h_ctor_bytes(ctx, B, n):
    b = ctx.fresh("b", 1, B)
    bs = [ctx.fresh("y%d" % i, 0, 255) for i in range(n)]
    val = 0
    for y in bs:
        val = (val << 8) | y
    seqkind = ctx.fresh_choice("kind", 3)
    arg = [mkbytes, list, tuple][seqkind](bs)
    st, r = call(F.Frame, b, arg)
    legal = E.lt(val, 1 << b)
    if st == "exc":
        ctx.prove(E.not_(legal), "byte constructor rejected fitting data", key="ctorb/legal-rejected",
                  detail=repr(r))
        ctx.prove(isinstance(r, ValueError), "byte constructor raised %s" % type(r).__name__,
                  key="ctorb/exc-type")
        return "reject"
    ctx.prove(legal, "byte constructor accepted oversized data", key="ctorb/illegal-accepted")
    ctx.prove(E.and_(E.eq(r.__len__(), b), E.eq(r.as_integer, val)),
              "byte constructor is not big-endian", key="ctorb/value")
    return "ok"


# --- reads ------------------------------------------------------------------------

def h_getbit(ctx, B):
    b, d = _state(ctx, B)
    i = ctx.fresh("i", -2, B + 2)
    f = _mk(b, d)
    st, r = call(lambda: f[i])
    inrange = E.and_(E.ge(i, 0), E.lt(i, b))
    _unchanged(ctx, f, b, d, "getbit")
    if st == "exc":
        ctx.prove(E.not_(inrange), "bit read rejected valid index", key="getbit/legal-rejected")
        ctx.prove(isinstance(r, IndexError), "bit read raised %s" % type(r).__name__,
                  key="getbit/exc-type")
        return "IndexError"
    ctx.prove(inrange, "bit read accepted invalid index", key="getbit/illegal-accepted")
    ctx.prove(r is True or r is False, "bit read returned non-bool", key="getbit/type")
    ctx.prove(E.iff(r, E.bit(d, E.ite(inrange, i, 0))), "bit read returned wrong bit", key="getbit/value")
    return "bit=%s" % r


def h_getslice(ctx, B):
    b, d = _state(ctx, B)
    x = ctx.fresh("x", -2, B + 2)
    y = ctx.fresh("y", -2, B + 2)
    f = _mk(b, d)
    st, r = call(lambda: f[x:y])
    ok = E.and_(E.ge(x, 0), E.ge(y, 0), E.lt(x, b), E.lt(y, b))
    _unchanged(ctx, f, b, d, "getslice")
    if st == "exc":
        ctx.prove(E.not_(ok), "slice read rejected valid indices", key="getslice/legal-rejected")
        ctx.prove(isinstance(r, IndexError), "slice read raised %s" % type(r).__name__,
                  key="getslice/exc-type")
        return "IndexError"
    ctx.prove(ok, "slice read accepted invalid indices", key="getslice/illegal-accepted")
    hi = E.ite(E.ge(x, y), x, y)
    lo = E.ite(E.ge(x, y), y, x)
    lo = E.ite(ok, lo, 0)
    hi = E.ite(ok, hi, 0)
    ref = (d >> lo) & mask(hi + 1 - lo)
    ctx.prove(E.eq(r, ref), "slice read returned wrong bits", key="getslice/value")
    ctx.observe("slice", r)
    return "ok"


# --- writes -----------------------------------------------------------------------

def h_setbit(ctx, B):
    b, d = _state(ctx, B)
    i = ctx.fresh("i", -2, B + 2)
    vk = ctx.fresh_choice("vkind", 3)
    v = [True, False, None][vk]
    if v is None:
        v = ctx.fresh("v", -2, 3)
    f = _mk(b, d)

    def op():
        f[i] = v
    st, r = call(op)
    inrange = E.and_(E.ge(i, 0), E.lt(i, b))
    if st == "exc":
        ctx.prove(E.not_(inrange), "bit write rejected valid index", key="setbit/legal-rejected")
        ctx.prove(isinstance(r, IndexError), "bit write raised %s" % type(r).__name__,
                  key="setbit/exc-type")
        _unchanged(ctx, f, b, d, "setbit")
        return "IndexError"
    ctx.prove(inrange, "bit write accepted invalid index", key="setbit/illegal-accepted")
    _inv(ctx, f, b, "setbit")
    ii = E.ite(inrange, i, 0)
    truth = E.truth(v)
    ref = E.ite(truth, d | (1 << ii), d & ~(1 << ii))
    ctx.prove(E.eq(f.as_integer, ref), "bit write changed other bits or wrong bit", key="setbit/value")
    ctx.observe("data", f.as_integer)
    return "ok"


def h_setslice(ctx, B):
    b, d = _state(ctx, B)
    x = ctx.fresh("x", -2, B + 2)
    y = ctx.fresh("y", -2, B + 2)
    v = ctx.fresh("v", -2, 1 << (B + 1))
    f = _mk(b, d)

    def op():
        f[x:y] = v
    st, r = call(op)
    idx_ok = E.and_(E.ge(x, 0), E.ge(y, 0), E.lt(x, b), E.lt(y, b))
    hi = E.ite(idx_ok, E.ite(E.ge(x, y), x, y), 0)
    lo = E.ite(idx_ok, E.ite(E.ge(x, y), y, x), 0)
    width = hi + 1 - lo
    val_ok = E.and_(E.ge(v, 0), E.lt(v, 1 << width))
    if st == "exc":
        ctx.prove(E.not_(E.and_(idx_ok, val_ok)), "slice write rejected legal arguments",
                  key="setslice/legal-rejected", detail=repr(r))
        ctx.prove(E.implies(E.not_(idx_ok), isinstance(r, IndexError)),
                  "bad slice index raised %s" % type(r).__name__, key="setslice/exc-type-index")
        ctx.prove(E.implies(idx_ok, isinstance(r, ValueError)),
                  "bad slice value raised %s" % type(r).__name__, key="setslice/exc-type-value")
        _unchanged(ctx, f, b, d, "setslice")
        return "reject:" + type(r).__name__
    ctx.prove(idx_ok, "slice write accepted invalid indices", key="setslice/illegal-index-accepted")
    ctx.prove(val_ok, "slice write accepted negative or oversized value",
              key="setslice/illegal-value-accepted")
    _inv(ctx, f, b, "setslice")
    vv = E.ite(val_ok, v, 0)
    ref = (d & ~(mask(width) << lo)) | (vv << lo)
    ctx.prove(E.eq(f.as_integer, ref), "slice write changed other bits or stored wrong value",
              key="setslice/value")
    # read back
    ctx.prove(E.eq(f[x:y], vv), "slice read-back differs from written value", key="setslice/readback")
    ctx.observe("data", f.as_integer)
    return "ok"


# --- concatenation ----------------------------------------------------------------

def h_add(ctx, B):
    half = B // 2
    b1, d1 = _state(ctx, half, "1")
    b2, d2 = _state(ctx, half, "2")
    k1 = ctx.fresh_choice("cls1", 2)
    f1 = _mk(b1, d1, [F.Frame, F.ForwardFrame][k1])
    f2 = _mk(b2, d2)
    st, r = call(lambda: f1 + f2)
    if st == "exc":
        ctx.fail("concatenation of two frames raised %r" % (r,), key="add/raised")
        return "exc"
    _inv(ctx, r, b1 + b2, "add")
    ctx.prove(E.eq(r.as_integer, (d1 << b2) | d2), "concatenation wrong", key="add/value")
    _unchanged(ctx, f1, b1, d1, "add-left")
    _unchanged(ctx, f2, b2, d2, "add-right")
    # the sum is a frame like any other: a bit cleared and a slice written on it land where they should
    tot = b1 + b2
    i = ctx.fresh("wi", 0, 2 * half - 1)
    ctx.assume(E.lt(i, tot))
    base = (d1 << b2) | d2

    def clr():
        r[i] = False
    stc, rc = call(clr)
    ctx.prove(stc == "ok" and E.eq(r.as_integer, base & ~(1 << i)) and E.eq(r.__len__(), tot),
              "clearing a bit of a concatenated frame changed other bits", key="add/write-bit")

    def sl():
        r[i:i] = 1
    sts, rs = call(sl)
    ctx.prove(sts == "ok" and E.eq(r.as_integer, base | (1 << i)) and E.eq(r.__len__(), tot),
              "a slice write on a concatenated frame changed other bits", key="add/write-slice")
    # augmented concatenation: `x += g` rebinds x to the longer frame; the object x named before (still
    # referenced elsewhere) keeps its length and contents - a frame's length never changes
    alias = f1
    x = f1

    def iadd():
        nonlocal x
        x += f2
    st2, r2 = call(iadd)
    if st2 == "exc":
        ctx.fail("`f += g` raised %r" % (r2,), key="add/iadd-raised")
    else:
        ctx.prove(E.and_(E.eq(x.__len__(), b1 + b2), E.eq(x.as_integer, (d1 << b2) | d2)),
                  "`f += g` gives a wrong frame", key="add/iadd-value")
        _unchanged(ctx, alias, b1, d1, "add-iadd-alias")
        _unchanged(ctx, f2, b2, d2, "add-iadd-right")
    ctx.observe("data", r.as_integer)
    return "ok"


# --- views ----------------------------------------------------------------------------

def h_views(ctx, B):
    b, d = _state(ctx, B)
    f = _mk(b, d)
    ctx.prove(E.eq(f.as_integer, d), "as_integer wrong", key="views/as_integer")
    n = len(f)                       # forks over the width
    ctx.prove(E.eq(n, b), "len() differs from constructed width", key="views/len")
    nbytes = (n + 7) // 8
    p = f.pack
    seq = f.as_byte_sequence
    ctx.prove(len(p) == nbytes and len(seq) == nbytes, "pack/as_byte_sequence length", key="views/packlen")
    acc = 0
    for y in p:
        acc = (acc << 8) | y
    ctx.prove(E.eq(acc, d), "pack is not the big-endian encoding", key="views/pack")
    acc2 = 0
    ok_rng = True
    for y in seq:
        ok_rng = E.and_(ok_rng, E.between(0, y, 255))
        acc2 = (acc2 << 8) | y
    ctx.prove(E.and_(ok_rng, E.eq(acc2, d)), "as_byte_sequence is not the big-endian encoding",
              key="views/seq")
    ctx.prove(isinstance(seq, list), "as_byte_sequence is not a list", key="views/seqtype")
    # reconstruct
    g = F.Frame(n, p)
    ctx.prove(g == f and not (g != f), "frame rebuilt from pack is not equal", key="views/rebuild")
    g2 = F.Frame(n, seq)
    ctx.prove(g2 == f, "frame rebuilt from as_byte_sequence is not equal", key="views/rebuild-seq")
    _unchanged(ctx, f, b, d, "views")
    ctx.observe("pack", p)
    return "w%d" % n


def h_pack_len(ctx, B):
    b, d = _state(ctx, B)
    l = ctx.fresh("l", 0, 10)
    f = _mk(b, d)
    st, r = call(f.pack_len, l)
    fits = E.lt(d, 1 << (8 * l))
    if st == "exc":
        ctx.prove(isinstance(r, OverflowError), "pack_len raised %s" % type(r).__name__,
                  key="packlen/exc-type")
        ctx.prove(E.not_(fits), "pack_len rejected a value that fits", key="packlen/legal-rejected")
        _unchanged(ctx, f, b, d, "pack_len")
        return "OverflowError"
    ctx.prove(fits, "pack_len truncated a value that does not fit", key="packlen/illegal-accepted")
    ctx.prove(E.eq(len(r), l), "pack_len wrong length", key="packlen/len")
    acc = 0
    for y in r:
        acc = (acc << 8) | y
    ctx.prove(E.eq(acc, d), "pack_len is not big-endian right-aligned", key="packlen/value")
    g = F.Frame(b, r)
    ctx.prove(g == f, "frame rebuilt from pack_len is not equal", key="packlen/rebuild")
    _unchanged(ctx, f, b, d, "pack_len")
    ctx.observe("packed", r)
    return "len%d" % len(r)


# --- two-step histories: every view read before a write must be fresh after it -----------------

def _views_match(ctx, f, n, d, what):
    """pack / as_byte_sequence / pack_len / as_integer / str all show the number d."""
    p = f.pack
    acc = 0
    for y in p:
        acc = (acc << 8) | y
    ctx.prove(E.and_(len(p) == (n + 7) // 8, E.eq(acc, d)), what + ": pack is stale or wrong", key=what + "/pack")
    seq = f.as_byte_sequence
    acc = 0
    for y in seq:
        acc = (acc << 8) | y
    ctx.prove(E.eq(acc, d), what + ": as_byte_sequence is stale or wrong", key=what + "/seq")
    pl = f.pack_len(9)
    acc = 0
    for y in pl:
        acc = (acc << 8) | y
    ctx.prove(E.eq(acc, d), what + ": pack_len is stale or wrong", key=what + "/pack_len")
    ctx.prove(E.eq(f.as_integer, d), what + ": as_integer wrong", key=what + "/as_integer")
    ctx.prove(F.Frame(n, p) == f, what + ": frame rebuilt from pack differs", key=what + "/rebuild")
    st, s = call(str, f)
    ctx.prove(st == "ok", what + ": str() raised", key=what + "/str")


def h_history(ctx, B, op):
    """read every view, perform one write, read every view again."""
    b, d = _state(ctx, B)
    f = _mk(b, d)
    n = len(f)                                  # forks over the width
    _views_match(ctx, f, n, d, "history/before")
    _ = (True in f), (False in f), f == F.Frame(n, 0), f[0]
    if op == "setbit":
        i = ctx.fresh("i", 0, B - 1)
        ctx.assume(E.lt(i, b))
        v = ctx.fresh_bool("v")
        f[i] = v
        want = E.ite(v, d | (1 << i), d & ~(1 << i))
    elif op == "setslice":
        x = ctx.fresh("x", 0, B - 1)
        y = ctx.fresh("y", 0, B - 1)
        ctx.assume(E.and_(E.lt(x, b), E.le(y, x)))
        w = x + 1 - y
        v = ctx.fresh("v", 0, (1 << B) - 1)
        ctx.assume(E.lt(v, 1 << w))
        f[x:y] = v
        want = (d & ~(mask(w) << y)) | (v << y)
    else:   # a rejected write must not disturb the views either
        st, r = call(f.__setitem__, slice(0, 0), -1)
        ctx.prove(st == "exc", "negative slice value accepted", key="history/reject")
        want = d
    _views_match(ctx, f, n, want, "history/after-" + op)
    # and once more after a second write of the opposite kind
    if op == "setbit":
        f[0:0] = 1
        want = want | 1
    else:
        f[0] = False
        want = want & ~1
    _views_match(ctx, f, n, want, "history/after-second")
    return "w%d" % n


def h_two(ctx, B, op):
    """Two live frames of independent widths: the same kind of write on the first, then on the second.
    Frames are independent values - nothing learnt from one frame (a mask, a packed view, a width) may
    be applied to the other."""
    ba, da = _state(ctx, B, "a")
    bb, db = _state(ctx, B, "b")
    fa, fb = _mk(ba, da), _mk(bb, db)
    wants = []
    for tag, f, b, d in (("a", fa, ba, da), ("b", fb, bb, db)):
        if op == "setslice":
            x = ctx.fresh("x" + tag, 0, B - 1)
            y = ctx.fresh("y" + tag, 0, B - 1)
            ctx.assume(E.and_(E.lt(x, b), E.le(y, x)))
            w = x + 1 - y
            v = ctx.fresh("v" + tag, 0, (1 << B) - 1)
            ctx.assume(E.lt(v, 1 << w))
            f[x:y] = v
            want = (d & ~(mask(w) << y)) | (v << y)
            ctx.prove(E.eq(f[x:y], v), "slice read-back differs on frame " + tag, key="two/readback-" + tag)
        else:
            i = ctx.fresh("i" + tag, 0, B - 1)
            ctx.assume(E.lt(i, b))
            v = ctx.fresh_bool("v" + tag)
            f[i] = v
            want = E.ite(v, d | (1 << i), d & ~(1 << i))
            ctx.prove(E.iff(f[i], v), "bit read-back differs on frame " + tag, key="two/readback-" + tag)
        wants.append(want)
        ctx.prove(E.and_(E.eq(f.__len__(), b), E.eq(f.as_integer, want)),
                  "write on frame %s (while another frame is alive) stored the wrong value" % tag,
                  key="two/%s/value-%s" % (op, tag))
    # the first frame is untouched by the work on the second, and both still show consistent views
    ctx.prove(E.and_(E.eq(fa.__len__(), ba), E.eq(fa.as_integer, wants[0])),
              "a write on one frame changed another frame", key="two/%s/aliasing" % op)
    na, nb = len(fa), len(fb)
    _views_match(ctx, fa, na, wants[0], "two/views-a")
    _views_match(ctx, fb, nb, wants[1], "two/views-b")
    g = fa + fb
    ctx.prove(E.and_(E.eq(g.__len__(), ba + bb), E.eq(g.as_integer, (wants[0] << bb) | wants[1])),
              "concatenation of the two frames is wrong", key="two/concat")
    ctx.prove(E.and_(E.eq(fa.as_integer, wants[0]), E.eq(fb.as_integer, wants[1])),
              "concatenation changed an operand", key="two/concat-operand")
    return "w%d+%d" % (na, nb)


# --- comparison / contains ------------------------------------------------------------

def h_eq(ctx, B):
    b1, d1 = _state(ctx, B, "1")
    b2, d2 = _state(ctx, B, "2")
    k1 = ctx.fresh_choice("cls1", 2)
    f1 = _mk(b1, d1, [F.Frame, F.ForwardFrame][k1])
    f2 = _mk(b2, d2)
    same = E.and_(E.eq(b1, b2), E.eq(d1, d2))
    r = (f1 == f2)
    n = (f1 != f2)
    ctx.prove(r is True or r is False, "== returned non-bool", key="eq/type")
    ctx.prove(E.iff(r, same), "== disagrees with (same width and same bits)", key="eq/value")
    ctx.prove(E.iff(n, E.not_(same)), "!= disagrees with (same width and same bits)", key="eq/ne")
    return "eq=%s" % r


def h_eq8(ctx):
    """Equality across the frame classes of eight bits: plain, forward, backward and framing-error frames are
    equal exactly when their bits are (the class and the error mark are not part of the value)."""
    d1, d2 = ctx.fresh("d1", 0, 255), ctx.fresh("d2", 0, 255)
    mk = [lambda d: F.Frame(8, d), lambda d: F.ForwardFrame(8, d), F.BackwardFrame, F.BackwardFrameError]
    k1, k2 = ctx.fresh_choice("cls1", 4), ctx.fresh_choice("cls2", 4)
    f1, f2 = mk[k1](d1), mk[k2](d2)
    same = E.eq(d1, d2)
    r, n = (f1 == f2), (f1 != f2)
    ctx.prove(r is True or r is False, "== returned non-bool", key="eq8/type")
    ctx.prove(E.iff(r, same), "== between %s and %s disagrees with (same bits)" % (type(f1).__name__, type(f2).__name__),
              key="eq8/value:%d-%d" % (k1, k2))
    ctx.prove(E.iff(n, E.not_(same)), "!= disagrees with (same bits)", key="eq8/ne:%d-%d" % (k1, k2))
    g = F.Frame(len(f1), f1.as_byte_sequence)
    ctx.prove(g == f1 and f1 == g, "a frame rebuilt from the byte sequence of a %s is not equal to it" % type(f1).__name__,
              key="eq8/rebuild:%d" % k1)
    return "%d-%d" % (k1, k2)


def h_contains(ctx, B):
    b, d = _state(ctx, B)
    f = _mk(b, d)
    t = True in f
    fl = False in f
    ctx.prove(E.iff(t, E.ne(d, 0)), "True in frame wrong", key="contains/true")
    ctx.prove(E.iff(fl, E.ne(d, mask(b))), "False in frame wrong", key="contains/false")
    ctx.prove((1 in f) is False and ("x" in f) is False and (None in f) is False,
              "non-bool item reported as contained", key="contains/other")
    _unchanged(ctx, f, b, d, "contains")
    return "T%s F%s" % (t, fl)


# --- backward frames --------------------------------------------------------------------

def h_backward(ctx):
    v = ctx.fresh("v", -2, 300)
    err = ctx.fresh_bool("err")
    cls = F.BackwardFrameError if err else F.BackwardFrame
    st, r = call(cls, v)
    legal = E.between(0, v, 255)
    if st == "exc":
        ctx.prove(E.not_(legal), "backward frame rejected a byte", key="bf/legal-rejected")
        ctx.prove(isinstance(r, ValueError), "backward frame raised %s" % type(r).__name__, key="bf/exc")
        return "reject"
    ctx.prove(legal, "backward frame accepted non-byte", key="bf/illegal-accepted")
    ctx.prove(len(r) == 8 and r.error is err, "backward frame width/error flag", key="bf/flags")
    ctx.prove(E.eq(r.as_integer, v), "backward frame value", key="bf/value")
    ctx.prove(E.eq(r[7:0], v), "backward frame slice", key="bf/slice")
    return "ok"


# --- wrong operand types (concrete list) --------------------------------------------------

def h_types(ctx):
    bad = 0
    f = F.Frame(8, 0xA5)

    def expect(exc, fn, what):
        nonlocal bad
        st, r = call(fn)
        ok = st == "exc" and isinstance(r, exc)
        ctx.prove(ok, "%s: expected %s, got %r" % (what, exc.__name__, r), key="types/" + what)
        ctx.prove(len(f) == 8 and f.as_integer == 0xA5, what + ": frame changed", key="types/changed/" + what)

    expect(TypeError, lambda: F.Frame("8"), "bits-str")
    expect(TypeError, lambda: F.Frame(8.0), "bits-float")
    expect(TypeError, lambda: F.Frame(None), "bits-none")
    expect(ValueError, lambda: F.Frame(0), "bits-zero")
    expect(TypeError, lambda: f["1"], "getitem-str")
    expect(TypeError, lambda: f[1.0], "getitem-float")
    expect(TypeError, lambda: f[None], "getitem-none")
    expect(TypeError, lambda: f[1.0:2], "getslice-float")
    expect(TypeError, lambda: f[None:2], "getslice-none")
    expect(TypeError, lambda: f[3:], "getslice-open")
    expect(TypeError, lambda: f[7:0:2], "getslice-step")
    expect(TypeError, lambda: f.__setitem__(slice(7, 0, 2), 1), "setslice-step")
    expect(TypeError, lambda: f.__setitem__(slice(3, 0), "1"), "setslice-str")
    expect(TypeError, lambda: f.__setitem__(slice(3, 0), 1.0), "setslice-float")
    expect(TypeError, lambda: f.__setitem__(slice(3, 0), None), "setslice-none")
    expect(TypeError, lambda: f.__setitem__("a", 1), "setitem-str")
    expect(TypeError, lambda: f.__setitem__(1.5, 1), "setitem-float")
    expect(TypeError, lambda: f + 1, "add-int")
    expect(TypeError, lambda: f + "x", "add-str")
    expect(TypeError, lambda: f + None, "add-none")
    ctx.prove((f == 0xA5) is False and (f != 0xA5) is True and (f == "x") is False
              and (f == None) is False, "frame equal to a non-frame", key="types/eq")  # noqa
    # stepped slice with step 1 is documented as accepted
    ctx.prove(f[7:4:1] == 0xA, "slice with step 1", key="types/step1")
    return "ok"


def cases(tier):
    B = 24 if tier == "quick" else 64
    Bv = 16 if tier == "quick" else 64
    cs = [
        Case("ctor_int", h_ctor_int, {"B": B}, width=128),
        Case("getbit", h_getbit, {"B": B}, width=128),
        Case("getslice", h_getslice, {"B": B}, width=128),
        Case("setbit", h_setbit, {"B": B}, width=128),
        Case("setslice", h_setslice, {"B": B}, width=128),
        Case("add", h_add, {"B": B}, width=128),
        Case("views", h_views, {"B": Bv}, width=128, shards=4 if tier == "thorough" else 1,
             shard_depth=1),
        Case("pack_len", h_pack_len, {"B": B}, width=128),
        Case("eq", h_eq, {"B": B}, width=128),
        Case("eq8", h_eq8, {}, width=64),
        Case("contains", h_contains, {"B": B}, width=128),
        Case("backward", h_backward, {}, width=64),
        Case("types", h_types, {}, width=64),
    ]
    Bh = 12 if tier == "quick" else 40
    for op in ("setbit", "setslice", "rejected"):
        cs.append(Case("history-" + op, h_history, {"B": Bh, "op": op}, width=128))
    Bt = 6 if tier == "quick" else 9
    for op in ("setslice", "setbit"):
        cs.append(Case("two-" + op, h_two, {"B": Bt, "op": op}, width=128))
    for n in ([1, 3] if tier == "quick" else [1, 2, 3, 4, 8, 9]):
        cs.append(Case("ctor_bytes%d" % n, h_ctor_bytes, {"B": B, "n": n}, width=128))
    return cs
