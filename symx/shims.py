"""Run-time shims that let the unmodified dali.* code carry SymInt values.

Everything here is installed into the *module globals* of already imported
``dali.*`` modules for the duration of a symbolic exploration and removed
again for concrete (cross-validation / replay) runs.  Nothing in /repo is
edited.
"""
import builtins
import re
import struct as _struct
import sys

import z3

from . import core
from .core import SymInt, SymBool, E, EngineUnsupported

_isinstance = builtins.isinstance
_int = builtins.int
_bytes = builtins.bytes
_bytearray = builtins.bytearray


def is_sym(x):
    return type(x) is SymInt


def any_sym(seq):
    for i in seq:
        if type(i) is SymInt:
            return True
    return False


# ---------------------------------------------------------------------------
# bytes-like

def _as_byte(b):
    """Range check of one element the way bytes() does it."""
    if type(b) is SymInt:
        if b.lo < 0 or b.hi > 255:
            if b < 0 or b > 255:
                raise ValueError("bytes must be in range(0, 256)")
            return SymInt(b.t, 0, 255)
        return b
    if _isinstance(b, _int):
        if not 0 <= b <= 255:
            raise ValueError("bytes must be in range(0, 256)")
        return _int(b)
    raise TypeError("'%s' object cannot be interpreted as an integer"
                    % type(b).__name__)


def _bytes_eq(a, b):
    return bool(E.and_(*[E.eq(x, y) for x, y in zip(a, b)])) if a else True


class SymBytes:
    """Immutable sequence of byte values, some of them symbolic."""
    mutable = False

    def __init__(self, items=()):
        self.items = [_as_byte(b) for b in items]

    @classmethod
    def _wrap(cls, items):
        o = cls.__new__(cls)
        o.items = items
        return o

    def _norm(self):
        """Collapse to real bytes when nothing symbolic is left."""
        if any_sym(self.items):
            return self
        return (_bytearray if self.mutable else _bytes)(self.items)

    def __len__(self):
        return len(self.items)

    def __iter__(self):
        return iter(self.items)

    def __getitem__(self, i):
        if type(i) is SymInt:
            i = i.concretize()
        r = self.items[i]
        if _isinstance(i, slice):
            return type(self)._wrap(r)
        return r

    def __add__(self, o):
        if _isinstance(o, (SymBytes, _bytes, _bytearray)):
            return type(self)._wrap(self.items + list(o))
        return NotImplemented

    def __radd__(self, o):
        if _isinstance(o, (_bytes, _bytearray)):
            return type(self)._wrap(list(o) + self.items)
        return NotImplemented

    def __mul__(self, n):
        return type(self)._wrap(self.items * n)

    def __eq__(self, o):
        if not _isinstance(o, (SymBytes, _bytes, _bytearray)):
            return False
        oi = list(o)
        if len(oi) != len(self.items):
            return False
        return bool(E.and_(*[E.eq(a, b) for a, b in zip(self.items, oi)]))

    def __ne__(self, o):
        return not self.__eq__(o)

    __hash__ = None

    def __bool__(self):
        return len(self.items) > 0

    def __contains__(self, x):
        for b in self.items:
            if b == x:
                return True
        return False

    def __repr__(self):
        return "SymBytes(%r)" % (self.items,)

    def hex(self, *a):
        return "".join(format(b, "02x") for b in self.items)

    def index(self, x, *a):
        for i, b in enumerate(self.items):
            if b == x:
                return i
        raise ValueError("subsection not found")

    def find(self, sub, start=0, end=None):
        if _isinstance(sub, (_bytes, _bytearray)):
            if len(sub) != 1:
                raise EngineUnsupported("SymBytes.find with a multi-byte pattern")
            sub = sub[0]
        items = self.items[start:end]
        for i, b in enumerate(items):
            if b == sub:
                return i + start
        return -1

    def startswith(self, prefix):
        p = list(prefix)
        if len(p) > len(self.items):
            return False
        return _bytes_eq(self.items[:len(p)], p)

    def endswith(self, suffix):
        p = list(suffix)
        if len(p) > len(self.items):
            return False
        return _bytes_eq(self.items[len(self.items) - len(p):], p)

    def count(self, x):
        if _isinstance(x, (_bytes, _bytearray)):
            x = x[0]
        return sum(1 for b in self.items if b == x)

    def split(self, sep=None, maxsplit=-1):
        if not _isinstance(sep, _bytes) or len(sep) != 1:
            raise EngineUnsupported("SymBytes.split with separator %r" % (sep,))
        if maxsplit < 0:
            return _LazySplit(self, sep)
        return self._split(sep, maxsplit)

    def _split(self, sep, maxsplit):
        out, cur, n = [], [], 0
        for b in self.items:
            if (maxsplit < 0 or n < maxsplit) and b == sep[0]:
                out.append(type(self)._wrap(cur)._norm())
                cur = []
                n += 1
            else:
                cur.append(b)
        out.append(type(self)._wrap(cur)._norm())
        return out

    def rstrip(self, chars=None):
        if chars is None or len(chars) != 1:
            raise EngineUnsupported("SymBytes.rstrip")
        items = list(self.items)
        while items and items[-1] == chars[0]:
            items.pop()
        return type(self)._wrap(items)._norm()

    def decode(self, encoding="utf-8", errors="strict"):
        enc = encoding.lower().replace("-", "").replace("_", "")
        if enc not in ("ascii", "usascii"):
            raise EngineUnsupported("SymBytes.decode(%r)" % encoding)
        for i, b in enumerate(self.items):
            if b > 127:
                if errors == "strict":
                    raise UnicodeDecodeError("ascii", b"", i, i + 1,
                                             "ordinal not in range(128)")
                raise EngineUnsupported("decode errors=%r" % errors)
        return SymStr(list(self.items))


class _LazySplit:
    """Result of SymBytes.split(sep): element 0 is computed by looking for the
    first separator only (the usual `raw.split(b"\\0")[0]` idiom); any other
    access computes the whole list."""

    def __init__(self, data, sep):
        self.data, self.sep, self.full = data, sep, None

    def _all(self):
        if self.full is None:
            self.full = self.data._split(self.sep, -1)
        return self.full

    def __getitem__(self, i):
        if i == 0 and self.full is None:
            return self.data._split(self.sep, 1)[0]
        return self._all()[i]

    def __len__(self):
        return len(self._all())

    def __iter__(self):
        return iter(self._all())


class SymByteArray(SymBytes):
    mutable = True

    def __setitem__(self, i, v):
        if type(i) is SymInt:
            i = i.concretize()
        if _isinstance(i, slice):
            self.items[i] = [_as_byte(b) for b in v]
        else:
            self.items[i] = _as_byte(v)

    def append(self, v):
        self.items.append(_as_byte(v))

    def extend(self, vs):
        self.items.extend(_as_byte(b) for b in vs)

    def clear(self):
        self.items.clear()

    def __iadd__(self, o):
        self.items.extend(_as_byte(b) for b in o)
        return self


class SymStr:
    """ASCII text whose characters are (possibly symbolic) code points."""

    def __init__(self, cps):
        self.cps = cps

    def __len__(self):
        return len(self.cps)

    def __eq__(self, o):
        if _isinstance(o, str):
            o = [ord(c) for c in o]
        elif _isinstance(o, SymStr):
            o = o.cps
        else:
            return False
        if len(o) != len(self.cps):
            return False
        return bool(E.and_(*[E.eq(a, b) for a, b in zip(self.cps, o)]))

    def __ne__(self, o):
        return not self.__eq__(o)

    __hash__ = None

    def encode(self, encoding="utf-8", errors="strict"):
        return SymBytes._wrap(list(self.cps))

    def __str__(self):
        c = core.Ctx.cur
        return "".join(chr(b) if type(b) is _int else c.token(b, "c")
                       for b in self.cps)

    def __format__(self, spec):
        return str(self)

    __repr__ = __str__


def bytes_shim(*args, **kw):
    if len(args) >= 1 and not kw:
        x = args[0]
        if _isinstance(x, SymBytes):
            return SymBytes._wrap(list(x.items))._norm()
        if type(x) is SymInt:
            return _bytes(x.concretize())
        if _isinstance(x, (list, tuple)) and any_sym(x):
            return SymBytes(x)
        if not _isinstance(x, (str, _bytes, _bytearray, _int, memoryview)):
            try:
                x = list(x)
            except TypeError:
                return _bytes(*args)
            if any_sym(x):
                return SymBytes(x)
            return _bytes(x)
    return _bytes(*args, **kw)


def bytearray_shim(*args, **kw):
    if len(args) >= 1 and not kw:
        x = args[0]
        if _isinstance(x, SymBytes):
            return SymByteArray._wrap(list(x.items))
        if type(x) is SymInt:
            return _bytearray(x.concretize())
        if _isinstance(x, (list, tuple)) and any_sym(x):
            return SymByteArray(x)
        # always the list-backed stand-in: a real bytearray cannot take a symbolic byte stored later
        # (item assignment would concretise it: 256 forks per byte)
        if _isinstance(x, int):
            return SymByteArray([0] * x)
        if _isinstance(x, (list, tuple, _bytes, _bytearray)):
            return SymByteArray(list(x))
    if not args and not kw:
        return SymByteArray([])
    return _bytearray(*args, **kw)


class _BytesMeta(type):
    def __instancecheck__(cls, obj):
        return _isinstance(obj, (_bytes, SymBytes)) and not _isinstance(obj, SymByteArray)

    def __call__(cls, *a, **k):
        return bytes_shim(*a, **k)


class BytesShim(metaclass=_BytesMeta):
    fromhex = _bytes.fromhex
    maketrans = _bytes.maketrans


class _ByteArrayMeta(type):
    def __instancecheck__(cls, obj):
        return _isinstance(obj, (_bytearray, SymByteArray))

    def __call__(cls, *a, **k):
        return bytearray_shim(*a, **k)


class ByteArrayShim(metaclass=_ByteArrayMeta):
    fromhex = _bytearray.fromhex


# ---------------------------------------------------------------------------
# int / isinstance / pow

class _IntMeta(type):
    def __instancecheck__(cls, obj):
        return _isinstance(obj, (_int, SymInt))

    def __subclasscheck__(cls, sub):
        return issubclass(sub, _int) or sub is SymInt


class IntShim(metaclass=_IntMeta):
    def __new__(cls, x=0, *a):
        if type(x) is SymInt:
            return x
        if type(x) is SymFlag:
            return x.value
        return _int(x, *a)

    @staticmethod
    def from_bytes(data, byteorder="big", *, signed=False):
        items = list(data)
        if not any_sym(items):
            return _int.from_bytes(_bytes(items), byteorder, signed=signed)
        items = [_as_byte(b) for b in items]
        if byteorder == "little":
            items.reverse()
        elif byteorder != "big":
            raise ValueError("byteorder must be either 'little' or 'big'")
        n = 8 * len(items)
        if n > core.W - 3:
            raise EngineUnsupported("from_bytes of %d symbolic bytes at W=%d"
                                    % (len(items), core.W))
        acc = 0
        for it in items:
            acc = (acc << 8) | it
        if signed and type(acc) is SymInt:
            t = z3.If(acc.t >= (1 << (n - 1)), acc.t - (1 << n), acc.t)
            return SymInt.mk(t, -(1 << (n - 1)), (1 << (n - 1)) - 1)
        return acc


class SymFlag:
    """Stand-in for an IntFlag *instance* whose value is symbolic.

    Provides what the code under test uses of such an instance: it is an int,
    an instance of its enum class, has dali_width(), to_bytes(), and
    `.__class__(n)` builds a new value of the same enum."""

    def __init__(self, enum_cls, value):
        self.enum_cls = enum_cls
        self.value = value

    @property
    def __class__(self):
        return _SymFlagClass(self.enum_cls)

    def dali_width(self):
        return self.enum_cls.dali_width()

    def to_bytes(self, *a, **k):
        v = self.value
        if type(v) is SymInt:
            return v.to_bytes(*a, **k)
        return _int(v).to_bytes(*a, **k)

    def __int__(self):
        return self.value

    def __index__(self):
        return self.value.__index__()

    def __and__(self, o):
        return self.value & (o.value if _isinstance(o, SymFlag) else o)

    def __eq__(self, o):
        return self.value == (o.value if type(o) is SymFlag else o)

    __hash__ = None

    def __repr__(self):
        return "SymFlag(%s, %r)" % (self.enum_cls.__name__, self.value)


class _SymFlagClass:
    def __init__(self, enum_cls):
        self.enum_cls = enum_cls
        self.__name__ = enum_cls.__name__

    def __call__(self, n):
        if type(n) is SymInt:
            return SymFlag(self.enum_cls, n)
        return self.enum_cls(n)

    def dali_width(self):
        return self.enum_cls.dali_width()

    def __getattr__(self, name):
        return getattr(self.enum_cls, name)

    def __iter__(self):
        return iter(self.enum_cls)

    def __len__(self):
        return len(self.enum_cls)


def sym_isinstance(obj, cls):
    if type(obj) is SymFlag:
        if cls is _int or cls is IntShim:
            return True
        if _isinstance(cls, tuple):
            return any(sym_isinstance(obj, c) for c in cls)
        return _isinstance(cls, type) and issubclass(obj.enum_cls, cls)
    if cls is _int or cls is IntShim:
        return _isinstance(obj, (_int, SymInt))
    if _isinstance(cls, tuple):
        for c in cls:
            if sym_isinstance(obj, c):
                return True
        return False
    if type(cls) is _SymFlagClass:
        return _isinstance(obj, cls.enum_cls)
    if cls is _bytes:
        return _isinstance(obj, (_bytes, SymBytes)) and not _isinstance(obj, SymByteArray)
    if cls is _bytearray:
        return _isinstance(obj, (_bytearray, SymByteArray))
    if cls is str and _isinstance(obj, SymStr):
        return True
    return _isinstance(obj, cls)


def pow_shim(b, e, *a):
    if type(e) is SymInt:
        e = e.concretize(512)
    if type(b) is SymInt:
        r = 1
        for _ in range(e):
            r = r * b
        return r
    return pow(b, e, *a)


def len_shim(x):
    return len(x)


# ---------------------------------------------------------------------------
# dict with symbolic keys

class SymDict(dict):
    """dict whose lookups understand symbolic keys.

    A lookup with a key containing a SymInt forks once per *distinct value
    object* stored under a key the symbolic key may equal (condition: the
    disjunction of the key equalities), plus once for "no key matches".
    Keys are ints or tuples of ints.  With `by_key=True` the fork is per key
    (needed when the caller also uses the key itself).
    """

    _cache = None

    def _invalidate(self):
        self._cache = None

    @staticmethod
    def _ranges(t, values):
        """Condition `t in values` as a disjunction of ranges."""
        vs = sorted(set(values))
        out, i = [], 0
        while i < len(vs):
            j = i
            while j + 1 < len(vs) and vs[j + 1] == vs[j] + 1:
                j += 1
            if i == j:
                out.append(t == vs[i])
            else:
                out.append(z3.And(t >= vs[i], t <= vs[j]))
            i = j + 1
        return out[0] if len(out) == 1 else z3.Or(*out)

    def _groups(self, key):
        """[(value, condition)] for the stored keys the symbolic key may equal,
        grouped by value object; cached per (dict contents, key terms)."""
        parts = key if _isinstance(key, tuple) else (key,)
        ck = tuple(("s", p.t.get_id(), p.lo, p.hi) if type(p) is SymInt else ("c", p)
                   for p in parts)
        if self._cache is None:
            self._cache = {}
        hit = self._cache.get(ck)
        if hit is not None:
            return hit[1]
        n = len(parts)
        sympos = [i for i, p in enumerate(parts) if type(p) is SymInt]
        if len(sympos) > 2:
            raise EngineUnsupported("SymDict key with more than two symbolic components")
        groups, order = {}, []
        for k, v in dict.items(self):
            kp = k if _isinstance(k, tuple) else (k,)
            if len(kp) != n:
                continue
            ok = True
            for a, b in zip(parts, kp):
                if type(a) is SymInt:
                    if not _isinstance(b, _int) or b < a.lo or b > a.hi:
                        ok = False
                        break
                elif a != b:
                    ok = False
                    break
            if not ok:
                continue
            g = id(v)
            if g not in groups:
                groups[g] = (v, [])
                order.append(g)
            groups[g][1].append(tuple(_int(kp[i]) for i in sympos))
        res = []
        for g in order:
            v, keys = groups[g]
            if len(sympos) == 1:
                c = self._ranges(parts[sympos[0]].t, [k[0] for k in keys])
            else:
                t0, t1 = parts[sympos[0]].t, parts[sympos[1]].t
                by0 = {}
                for a, b in keys:
                    by0.setdefault(a, []).append(b)
                # merge first components that share the same second-component set
                bysec = {}
                for a, bs in by0.items():
                    bysec.setdefault(tuple(sorted(set(bs))), []).append(a)
                cs = [z3.And(self._ranges(t0, as_), self._ranges(t1, list(bs)))
                      for bs, as_ in bysec.items()]
                c = cs[0] if len(cs) == 1 else z3.Or(*cs)
            res.append((v, z3.simplify(c)))
        conds = [c for _, c in res]
        none = z3.simplify(z3.Not(z3.Or(*conds))) if conds else z3.BoolVal(True)
        out = (res, conds + [none])
        self._cache[ck] = (parts, out)   # keep the terms alive (ids stay unique)
        return out

    def _lookup(self, key):
        parts = key if _isinstance(key, tuple) else (key,)
        if not any_sym(parts):
            return None
        gs, conds = self._groups(key)
        if not gs:
            return (False, None)
        index = {id(v): i for i, (v, _) in enumerate(gs)}
        missing = object()

        def pick(m):
            ck = tuple(m.eval(p.t, model_completion=True).as_signed_long()
                       if type(p) is SymInt else p for p in parts)
            v = dict.get(self, ck if _isinstance(key, tuple) else ck[0], missing)
            if v is missing:
                return len(gs)
            return index.get(id(v))
        k = core.Ctx.cur.choose(conds, simplified=True, pick=pick)
        if k == len(gs):
            return (False, None)
        return (True, gs[k][0])

    def get(self, key, default=None):
        r = self._lookup(key)
        if r is None:
            return dict.get(self, key, default)
        return r[1] if r[0] else default

    def __getitem__(self, key):
        r = self._lookup(key)
        if r is None:
            return dict.__getitem__(self, key)
        if not r[0]:
            raise KeyError(key)
        return r[1]

    def __contains__(self, key):
        r = self._lookup(key)
        if r is None:
            return dict.__contains__(self, key)
        return r[0]

    def __setitem__(self, key, value):
        parts = key if _isinstance(key, tuple) else (key,)
        if any_sym(parts):
            raise EngineUnsupported("SymDict store under a symbolic key")
        self._cache = None
        dict.__setitem__(self, key, value)

    def pop(self, key, *default):
        self._cache = None
        parts = key if _isinstance(key, tuple) else (key,)
        if any_sym(parts):
            # concretise the key against the stored keys
            for k in list(dict.keys(self)):
                if key == k:
                    return dict.pop(self, k)
            if default:
                return default[0]
            raise KeyError(key)
        return dict.pop(self, key, *default)

    def __delitem__(self, key):
        self._cache = None
        parts = key if _isinstance(key, tuple) else (key,)
        if any_sym(parts):
            for k in list(dict.keys(self)):
                if key == k:
                    return dict.__delitem__(self, k)
            raise KeyError(key)
        return dict.__delitem__(self, key)


# ---------------------------------------------------------------------------
# Enum proxy: Enum(value) with a symbolic value

class EnumProxy:
    """Stands in for an Enum class inside a module under test.

    Calling it with a SymInt forks per member value (+ ValueError); attribute
    access and iteration are forwarded to the real Enum.
    """

    def __init__(self, real):
        object.__setattr__(self, "_real", real)

    def __call__(self, value, *a, **k):
        if type(value) is SymInt:
            members = []
            for m in self._real:
                if _isinstance(m.value, _int) and m not in members:
                    members.append(m)
            conds = [value.t == _int(m.value) for m in members]
            conds.append(z3.Not(z3.Or(*conds)))
            i = core.Ctx.cur.choose(conds)
            if i == len(members):
                raise ValueError("%s is not a valid %s"
                                 % (value, self._real.__name__))
            return members[i]
        return self._real(value, *a, **k)

    def __getattr__(self, name):
        return getattr(self._real, name)

    def __iter__(self):
        return iter(self._real)

    def __getitem__(self, name):
        return self._real[name]

    def __instancecheck__(self, obj):
        return _isinstance(obj, self._real)

    def __repr__(self):
        return "EnumProxy(%r)" % self._real


# ---------------------------------------------------------------------------
# struct

class StructShim:
    """Interprets a real struct format string over possibly symbolic values."""
    _sizes = {"B": 1, "b": 1, "H": 2, "h": 2, "I": 4, "i": 4, "L": 4, "Q": 8,
              "?": 1, "c": 1}

    def __init__(self, fmt):
        if _isinstance(fmt, _bytes):
            fmt = fmt.decode()
        self.format = fmt
        self.real = _struct.Struct(fmt)
        self.size = self.real.size
        body = fmt.lstrip("<>=!@")
        order = fmt[:1] if fmt[:1] in "<>=!@" else "@"
        if order == "@":
            # native alignment: only accept formats where it cannot matter
            if _struct.calcsize("=" + body) != self.size:
                raise EngineUnsupported("struct format with native padding: %r" % fmt)
            self.big = sys.byteorder == "big"
        elif order == "=":
            self.big = sys.byteorder == "big"
        else:
            self.big = order in ">!"
        self.fields = []
        for n, c in re.findall(r"(\d*)([a-zA-Z?])", body.replace(" ", "")):
            if c not in "xs" and c not in self._sizes:
                raise EngineUnsupported("struct format code %r" % c)
            self.fields.append((_int(n) if n else 1, c))

    def _sym_args(self, args):
        for a in args:
            if type(a) is SymInt or _isinstance(a, SymBytes):
                return True
        return False

    def pack(self, *args):
        if not self._sym_args(args):
            return self.real.pack(*args)
        out = []
        it = iter(args)
        try:
            for n, c in self.fields:
                if c == "x":
                    out += [0] * n
                elif c == "s":
                    v = list(next(it))[:n]
                    out += v + [0] * (n - len(v))
                else:
                    w = self._sizes[c]
                    signed = c in "bhi"
                    for _ in range(n):
                        v = next(it)
                        if not sym_isinstance(v, _int):
                            raise _struct.error("required argument is not an integer")
                        lo, hi = (-(1 << (8 * w - 1)), (1 << (8 * w - 1)) - 1) if signed \
                            else (0, (1 << (8 * w)) - 1)
                        if v < lo or v > hi:
                            raise _struct.error("argument out of range")
                        if signed:
                            v = v & ((1 << (8 * w)) - 1)
                        bs = [(v >> (8 * i)) & 0xFF for i in range(w)]
                        if self.big:
                            bs.reverse()
                        out += bs
        except StopIteration:
            raise _struct.error("pack expected more items")
        for _ in it:
            raise _struct.error("pack expected fewer items")
        return SymBytes._wrap(out)._norm()

    def unpack(self, data):
        if _isinstance(data, (_bytes, _bytearray)):
            return self.real.unpack(data)
        data = list(data)
        if not any_sym(data):
            return self.real.unpack(_bytes(data))
        if len(data) != self.size:
            raise _struct.error("unpack requires a buffer of %d bytes" % self.size)
        pos, res = 0, []
        for n, c in self.fields:
            if c == "x":
                pos += n
            elif c == "s":
                res.append(SymBytes._wrap(data[pos:pos + n])._norm())
                pos += n
            else:
                w = self._sizes[c]
                for _ in range(n):
                    chunk = data[pos:pos + w]
                    pos += w
                    if not self.big:
                        chunk = chunk[::-1]
                    acc = 0
                    for b in chunk:
                        acc = (acc << 8) | b
                    if c in "bhi" and type(acc) is SymInt:
                        nb = 8 * w
                        acc = SymInt.mk(z3.If(acc.t >= (1 << (nb - 1)),
                                              acc.t - (1 << nb), acc.t),
                                        -(1 << (nb - 1)), (1 << (nb - 1)) - 1)
                    elif c in "bhi":
                        nb = 8 * w
                        if acc >= 1 << (nb - 1):
                            acc -= 1 << nb
                    elif c == "?":
                        acc = acc != 0
                    res.append(acc)
        return tuple(res)

    def unpack_from(self, data, offset=0):
        return self.unpack(data[offset:offset + self.size])


class StructModuleShim:
    """Stands in for the `struct` module inside a module under test."""
    error = _struct.error

    def __init__(self):
        self._cache = {}

    def Struct(self, fmt):
        return StructShim(fmt)

    def _get(self, fmt):
        s = self._cache.get(fmt)
        if s is None:
            s = self._cache[fmt] = StructShim(fmt)
        return s

    def pack(self, fmt, *args):
        return self._get(fmt).pack(*args)

    def unpack(self, fmt, data):
        return self._get(fmt).unpack(data)

    def calcsize(self, fmt):
        return _struct.calcsize(fmt)


# ---------------------------------------------------------------------------
# installation

_SHIMS = {
    "isinstance": sym_isinstance,
    "int": IntShim,
    "bytes": BytesShim,
    "bytearray": ByteArrayShim,
    "pow": pow_shim,
}


class Installed:
    """Context manager installing shims into module globals and restoring
    everything on exit."""

    def __init__(self, mods, extra=None):
        self.mods = list(mods)
        self.extra = extra or {}
        self.saved = []

    def set(self, obj, name, value):
        """Patch attribute/global `name` of module or class `obj`."""
        old = obj.__dict__.get(name, _MISSING)
        self.saved.append((obj, name, old, value))
        setattr(obj, name, value)

    def __enter__(self):
        for m in self.mods:
            for k, v in _SHIMS.items():
                self.set(m, k, v)
            if m.__dict__.get("struct") is _struct:
                self.set(m, "struct", StructModuleShim())
        return self

    def suspend(self):
        """Temporarily put the originals back (concrete run)."""
        for obj, name, old, new in reversed(self.saved):
            if old is _MISSING:
                try:
                    delattr(obj, name)
                except AttributeError:
                    pass
            else:
                setattr(obj, name, old)

    def resume(self):
        for obj, name, old, new in self.saved:
            setattr(obj, name, new)

    def __exit__(self, *exc):
        self.suspend()
        self.saved.clear()
        return False


_MISSING = object()


def dali_modules():
    return [m for n, m in sorted(sys.modules.items())
            if (n == "dali" or n.startswith("dali.")) and ".tests" not in n
            and m is not None]


class SymKeyDict(dict):
    """A small dict whose *stored* keys may be symbolic too (kept as a list of
    pairs; never hashed).  Used for maps filled through the library's own API
    with symbolic keys, e.g. DeviceInstanceTypeMapper._mapping."""

    def __init__(self, *a, **k):
        dict.__init__(self)
        self.pairs = []
        for kk, v in dict(*a, **k).items():
            self[kk] = v

    @staticmethod
    def _keycond(a, b):
        pa = a if _isinstance(a, tuple) else (a,)
        pb = b if _isinstance(b, tuple) else (b,)
        if len(pa) != len(pb):
            return False
        return E.and_(*[E.eq(x, y) for x, y in zip(pa, pb)])

    def _find(self, key):
        conds = [self._keycond(key, k) for k, _ in self.pairs]
        idx = [i for i, c in enumerate(conds) if c is not False]
        for i in idx:
            if conds[i] is True:
                return i
        if not idx:
            return None
        ts = [conds[i].t for i in idx]
        ts.append(z3.Not(z3.Or(*ts)))
        k = core.Ctx.cur.choose(ts)
        return None if k == len(idx) else idx[k]

    def __setitem__(self, key, value):
        i = self._find(key)
        if i is None:
            self.pairs.append((key, value))
        else:
            self.pairs[i] = (key, value)

    def get(self, key, default=None):
        i = self._find(key)
        return default if i is None else self.pairs[i][1]

    def __getitem__(self, key):
        i = self._find(key)
        if i is None:
            raise KeyError(key)
        return self.pairs[i][1]

    def __contains__(self, key):
        return self._find(key) is not None

    def __len__(self):
        return len(self.pairs)

    def __bool__(self):
        return bool(self.pairs)

    def __iter__(self):
        return iter([k for k, _ in self.pairs])

    def items(self):
        return list(self.pairs)

    def keys(self):
        return [k for k, _ in self.pairs]

    def values(self):
        return [v for _, v in self.pairs]

    def clear(self):
        self.pairs = []

    def pop(self, key, *default):
        i = self._find(key)
        if i is None:
            if default:
                return default[0]
            raise KeyError(key)
        return self.pairs.pop(i)[1]

    def __delitem__(self, key):
        self.pop(key)

    def __repr__(self):
        return "SymKeyDict(%r)" % (self.pairs,)
