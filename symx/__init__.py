from .core import (SymInt, SymBool, E, Ctx, ConcreteCtx, explore, set_width,
                   EngineUnsupported, PathEnd)
from .runner import Case
from . import vloop
