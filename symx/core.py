"""symx core: eager-forking symbolic execution of real Python code with z3.

A harness is an ordinary function ``h(ctx)``.  In *symbolic* mode ``ctx`` is a
:class:`Ctx`: ``ctx.fresh`` hands out :class:`SymInt` proxies around z3
bit-vector terms, every comparison on such a proxy is decided by the solver
(both sides are explored when both are feasible) and returns a real ``bool``,
and ``ctx.prove`` asks the solver to show an obligation for *all* values on the
current path.  The decision tree is explored exhaustively, depth first, by
re-executing the harness under a forced decision prefix.

In *concrete* mode ``ctx`` is a :class:`ConcreteCtx`: ``fresh`` returns the
plain ``int`` a model assigned, nothing is shimmed, and the same harness body
runs on the real, un-instrumented code.  This is used (a) to cross-validate
every explored path (translator validation) and (b) to replay counterexamples
before they are reported.
"""
import contextlib
import time
from decimal import Decimal as _Decimal
import z3

# ---------------------------------------------------------------------------
# configuration

W = 64  # bit-vector width of SymInt terms; harnesses may call set_width()


def set_width(w):
    global W
    W = w


# ---------------------------------------------------------------------------
# control-flow exceptions (BaseException so that `except Exception` in the code
# under test cannot swallow them)

class PathEnd(BaseException):
    """The current path is infeasible or deliberately cut."""


class EngineUnsupported(BaseException):
    """The code under test did something the engine cannot model soundly."""


class ShardSkip(BaseException):
    """The current subtree belongs to another worker."""


class Budget(BaseException):
    """Exploration budget exhausted (reported as inconclusive)."""


# ---------------------------------------------------------------------------
# symbolic values

def _fits(lo, hi):
    lim = 1 << (W - 2)
    return -lim <= lo and hi < lim


def _const(v):
    if not (-(1 << (W - 1)) <= v < (1 << (W - 1))):
        raise EngineUnsupported("constant does not fit %d bits: %d" % (W, v))
    return z3.BitVecVal(v, W)


def _term(v):
    """z3 term for an int-like python value, or None."""
    if type(v) is SymInt:
        return v.t
    if v is True:
        return z3.BitVecVal(1, W)
    if v is False:
        return z3.BitVecVal(0, W)
    if type(v) is int:
        return _const(v)
    if isinstance(v, int):  # IntEnum/IntFlag members and other int subclasses
        return _const(int(v))
    return None


def _rng(v):
    if type(v) is SymInt:
        return v.lo, v.hi
    v = int(v)
    return v, v


def _nbits(n):
    return n.bit_length() + 1


class SymBool:
    """A non-forking boolean expression.  ``bool()`` on it forks."""
    __slots__ = ("t",)

    def __init__(self, t):
        self.t = t

    def __bool__(self):
        return Ctx.cur.branch(self.t)

    def __repr__(self):
        return "SymBool(%s)" % self.t


def _mkbool(t):
    t = z3.simplify(t)
    if z3.is_true(t):
        return True
    if z3.is_false(t):
        return False
    return SymBool(t)


def _boolterm(b):
    if type(b) is SymBool:
        return b.t
    if type(b) is SymInt:
        return b.t != 0
    return z3.BoolVal(bool(b))


class SymScaled:
    """symbolic int times a concrete float/Decimal factor: can only be
    rendered as text, compared for identity of (base, factor), or scaled
    again.  Arithmetic beyond that is unsupported (floats are not modelled)."""
    __slots__ = ("base", "factor")

    def __init__(self, base, factor):
        self.base = base
        self.factor = factor

    def concrete(self, v):
        return v * self.factor

    def __mul__(self, o):
        if isinstance(o, (int, float, _Decimal)) and not isinstance(o, bool):
            return SymScaled(self.base, self.factor * o)
        raise EngineUnsupported("arithmetic on a scaled symbolic value")
    __rmul__ = __mul__

    def __format__(self, spec):
        return Ctx.cur.token(self, spec)

    def __str__(self):
        return Ctx.cur.token(self, "")

    def __repr__(self):
        return Ctx.cur.token(self, "r")

    def _unsupported(self, *a):
        raise EngineUnsupported("arithmetic/comparison on a scaled symbolic value")
    __add__ = __radd__ = __sub__ = __rsub__ = __truediv__ = __lt__ = __le__ = __gt__ = __ge__ = _unsupported
    __float__ = __int__ = __bool__ = _unsupported

    def __eq__(self, o):
        if type(o) is SymScaled and o.factor == self.factor:
            return self.base == o.base
        raise EngineUnsupported("comparison of a scaled symbolic value")

    __hash__ = None


class SymInt:
    """Proxy for a Python ``int`` whose value is a z3 bit-vector term.

    Deliberately *not* a subclass of ``int``.
    """
    __slots__ = ("t", "lo", "hi")

    def __init__(self, t, lo, hi):
        self.t = t
        if not _fits(lo, hi):
            lo, hi = Ctx.cur.tighten(t, lo, hi)
        self.lo = lo
        self.hi = hi

    @staticmethod
    def mk(t, lo, hi):
        t = z3.simplify(t)
        if z3.is_bv_value(t):
            return t.as_signed_long()
        return SymInt(t, lo, hi)

    # -- arithmetic --------------------------------------------------------
    def __add__(self, o):
        b = _term(o)
        if b is None:
            return NotImplemented
        l, h = _rng(o)
        return SymInt.mk(self.t + b, self.lo + l, self.hi + h)
    __radd__ = __add__

    def __sub__(self, o):
        b = _term(o)
        if b is None:
            return NotImplemented
        l, h = _rng(o)
        return SymInt.mk(self.t - b, self.lo - h, self.hi - l)

    def __rsub__(self, o):
        b = _term(o)
        if b is None:
            return NotImplemented
        l, h = _rng(o)
        return SymInt.mk(b - self.t, l - self.hi, h - self.lo)

    def __neg__(self):
        return SymInt.mk(-self.t, -self.hi, -self.lo)

    def __pos__(self):
        return self

    def __invert__(self):
        return SymInt.mk(~self.t, -self.hi - 1, -self.lo - 1)

    def __abs__(self):
        if self < 0:
            return -self
        return self

    def __mul__(self, o):
        b = _term(o)
        if b is None:
            if isinstance(o, (float, _Decimal)):
                return SymScaled(self, o)
            return NotImplemented
        l, h = _rng(o)
        c = [self.lo * l, self.lo * h, self.hi * l, self.hi * h]
        return SymInt.mk(self.t * b, min(c), max(c))
    __rmul__ = __mul__

    def __and__(self, o):
        b = _term(o)
        if b is None:
            return NotImplemented
        l, h = _rng(o)
        if self.lo >= 0 and l >= 0:
            lo, hi = 0, min(self.hi, h)
        elif l >= 0:
            lo, hi = 0, h
        elif self.lo >= 0:
            lo, hi = 0, self.hi
        else:
            k = max(_nbits(self.lo), _nbits(self.hi), _nbits(l), _nbits(h))
            lo, hi = -(1 << k), (1 << k)
        return SymInt.mk(self.t & b, lo, hi)
    __rand__ = __and__

    def _orx(self, o, op):
        b = _term(o)
        if b is None:
            return NotImplemented
        l, h = _rng(o)
        k = max(_nbits(self.lo), _nbits(self.hi), _nbits(l), _nbits(h))
        if self.lo >= 0 and l >= 0:
            lo, hi = 0, (1 << (k - 1)) - 1
        else:
            lo, hi = -(1 << k), (1 << k)
        return SymInt.mk(op(self.t, b), lo, hi)

    def __or__(self, o):
        return self._orx(o, lambda a, b: a | b)
    __ror__ = __or__

    def __xor__(self, o):
        return self._orx(o, lambda a, b: a ^ b)
    __rxor__ = __xor__

    @staticmethod
    def _shift_amount(amount):
        """Return (term, lo, hi) of a shift amount after Python's sign check."""
        b = _term(amount)
        l, h = _rng(amount)
        if l < 0:
            if Ctx.cur.branch(b < 0):
                raise ValueError("negative shift count")
            l = 0
            h = max(h, 0)
        return b, l, h

    @staticmethod
    def _shl(a, b):
        at, (al, ah) = _term(a), _rng(a)
        bt, bl, bh = SymInt._shift_amount(b)
        if bh >= W:
            bl, bh = Ctx.cur.tighten(bt, bl, bh, want_hi=W - 1)
            if bh >= W:
                raise EngineUnsupported("shift amount may exceed width")
        c = [al << bl, al << bh, ah << bl, ah << bh]
        return SymInt.mk(at << bt, min(c), max(c))

    @staticmethod
    def _shr(a, b):
        at, (al, ah) = _term(a), _rng(a)
        bt, bl, bh = SymInt._shift_amount(b)
        if bh >= W:
            # python: shifts everything out; z3 '>>' (ashr) saturates likewise
            bh = W
        c = [al >> bl, al >> bh, ah >> bl, ah >> bh]
        # amounts >= W: ashr in z3 yields 0 or -1 exactly like python
        return SymInt.mk(at >> bt, min(c), max(c))

    def __lshift__(self, o):
        if _term(o) is None:
            return NotImplemented
        return SymInt._shl(self, o)

    def __rlshift__(self, o):
        if _term(o) is None:
            return NotImplemented
        return SymInt._shl(o, self)

    def __rshift__(self, o):
        if _term(o) is None:
            return NotImplemented
        return SymInt._shr(self, o)

    def __rrshift__(self, o):
        if _term(o) is None:
            return NotImplemented
        return SymInt._shr(o, self)

    @staticmethod
    def _divmod(a, b):
        at, (al, ah) = _term(a), _rng(a)
        bt, (bl, bh) = _term(b), _rng(b)
        if bl <= 0 <= bh:
            if Ctx.cur.branch(bt == 0):
                raise ZeroDivisionError("integer division or modulo by zero")
            if bl == 0:
                bl = 1
            elif bh == 0:
                bh = -1
        if al < 0 or bl < 0:
            # python floor semantics with negative operands
            if bl < 0 < bh or al < 0 < ah:
                raise EngineUnsupported("floor division with mixed signs")
            raise EngineUnsupported("floor division with negative operands")
        return at, bt, al, ah, bl, bh

    def __floordiv__(self, o):
        if _term(o) is None:
            return NotImplemented
        at, bt, al, ah, bl, bh = SymInt._divmod(self, o)
        return SymInt.mk(z3.UDiv(at, bt), al // bh, ah // bl)

    def __rfloordiv__(self, o):
        if _term(o) is None:
            return NotImplemented
        at, bt, al, ah, bl, bh = SymInt._divmod(o, self)
        return SymInt.mk(z3.UDiv(at, bt), al // bh, ah // bl)

    def __mod__(self, o):
        if _term(o) is None:
            return NotImplemented
        at, bt, al, ah, bl, bh = SymInt._divmod(self, o)
        return SymInt.mk(z3.URem(at, bt), 0, min(ah, bh - 1))

    def __rmod__(self, o):
        if _term(o) is None:
            return NotImplemented
        at, bt, al, ah, bl, bh = SymInt._divmod(o, self)
        return SymInt.mk(z3.URem(at, bt), 0, min(ah, bh - 1))

    def __divmod__(self, o):
        return self // o, self % o

    def __truediv__(self, o):
        raise EngineUnsupported("true division on a symbolic int (float)")
    __rtruediv__ = __truediv__

    def __pow__(self, o, m=None):
        raise EngineUnsupported("pow with symbolic base")

    def __rpow__(self, o, m=None):
        e = self.concretize()
        return pow(o, e) if m is None else pow(o, e, m)

    def __float__(self):
        raise EngineUnsupported("float() of a symbolic int")

    # -- comparisons: eager fork, real bool -------------------------------------
    def __lt__(self, o):
        b = _term(o)
        if b is None:
            return NotImplemented
        return Ctx.cur.branch(self.t < b)

    def __le__(self, o):
        b = _term(o)
        if b is None:
            return NotImplemented
        return Ctx.cur.branch(self.t <= b)

    def __gt__(self, o):
        b = _term(o)
        if b is None:
            return NotImplemented
        return Ctx.cur.branch(self.t > b)

    def __ge__(self, o):
        b = _term(o)
        if b is None:
            return NotImplemented
        return Ctx.cur.branch(self.t >= b)

    def __eq__(self, o):
        b = _term(o)
        if b is None:
            return False
        return Ctx.cur.branch(self.t == b)

    def __ne__(self, o):
        b = _term(o)
        if b is None:
            return True
        return Ctx.cur.branch(self.t != b)

    def __bool__(self):
        return Ctx.cur.branch(self.t != 0)

    # -- concretise by fork ------------------------------------------------------
    def concretize(self, limit=256):
        return Ctx.cur.concretize(self, limit)

    def __index__(self):
        return self.concretize()

    def __int__(self):
        return self.concretize()

    def __hash__(self):
        return hash(self.concretize())

    # -- text: tokens -------------------------------------------------------------
    def __format__(self, spec):
        return Ctx.cur.token(self, spec)

    def __str__(self):
        return Ctx.cur.token(self, "")

    def __repr__(self):
        c = Ctx.cur
        if c is not None and c.active:
            return c.token(self, "r")
        return "SymInt(%s)" % self.t

    # `x.__class__(v)` on an int builds an int: keep that working for proxies
    @property
    def __class__(self):
        from . import shims
        return shims.IntShim

    # -- int methods ----------------------------------------------------------------
    def bit_length(self):
        me = self
        if self.lo < 0:
            if self < 0:
                me = -self
                if type(me) is int:
                    return me.bit_length()
        n = max(me.hi, 0).bit_length()
        t = z3.BitVecVal(0, W)
        for k in range(1, n + 1):
            t = z3.If(me.t >= _const(1 << (k - 1)), z3.BitVecVal(k, W), t)
        return SymInt.mk(t, 0, n)

    def to_bytes(self, length=1, byteorder="big", *, signed=False):
        from . import shims
        if type(length) is SymInt:
            length = length.concretize()
        if signed:
            lim = 1 << (8 * length - 1)
            if self < -lim or self >= lim:
                raise OverflowError("int too big to convert")
            v = self & ((1 << (8 * length)) - 1)
        else:
            if self < 0:
                raise OverflowError("can't convert negative int to unsigned")
            if 8 * length < W - 2 and self >= (1 << (8 * length)):
                raise OverflowError("int too big to convert")
            v = self
        bs = [(v >> (8 * i)) & 0xFF for i in range(length)]
        if byteorder == "big":
            bs.reverse()
        elif byteorder != "little":
            raise ValueError("byteorder must be either 'little' or 'big'")
        return shims.SymBytes(bs)

    def conjugate(self):
        return self

    @property
    def real(self):
        return self

    @property
    def imag(self):
        return 0

    @property
    def numerator(self):
        return self

    @property
    def denominator(self):
        return 1


# ---------------------------------------------------------------------------
# non-forking expression builders (work on SymInt | int, SymBool | bool)

class E:
    @staticmethod
    def _cmp(a, b, op, pyop):
        if type(a) is not SymInt and type(b) is not SymInt:
            return pyop(a, b)
        at, bt = _term(a), _term(b)
        if at is None or bt is None:
            raise EngineUnsupported("E comparison on non-int %r %r" % (type(a), type(b)))
        return _mkbool(op(at, bt))

    @staticmethod
    def eq(a, b):
        if type(a) is not SymInt and type(b) is not SymInt:
            return a == b
        at, bt = _term(a), _term(b)
        if at is None or bt is None:
            return False
        return _mkbool(at == bt)

    @staticmethod
    def ne(a, b):
        return E.not_(E.eq(a, b))

    @staticmethod
    def lt(a, b):
        return E._cmp(a, b, lambda x, y: x < y, lambda x, y: x < y)

    @staticmethod
    def le(a, b):
        return E._cmp(a, b, lambda x, y: x <= y, lambda x, y: x <= y)

    @staticmethod
    def gt(a, b):
        return E._cmp(a, b, lambda x, y: x > y, lambda x, y: x > y)

    @staticmethod
    def ge(a, b):
        return E._cmp(a, b, lambda x, y: x >= y, lambda x, y: x >= y)

    @staticmethod
    def between(lo, x, hi):
        return E.and_(E.le(lo, x), E.le(x, hi))

    @staticmethod
    def and_(*xs):
        if any(x is False for x in xs):
            return False
        xs = [x for x in xs if x is not True]
        if not xs:
            return True
        if all(type(x) is bool for x in xs):
            return all(xs)
        return _mkbool(z3.And(*[_boolterm(x) for x in xs]))

    @staticmethod
    def or_(*xs):
        if any(x is True for x in xs):
            return True
        xs = [x for x in xs if x is not False]
        if not xs:
            return False
        if all(type(x) is bool for x in xs):
            return any(xs)
        return _mkbool(z3.Or(*[_boolterm(x) for x in xs]))

    @staticmethod
    def not_(x):
        if type(x) is SymBool:
            return _mkbool(z3.Not(x.t))
        if type(x) is SymInt:
            return _mkbool(x.t == 0)
        return not x

    @staticmethod
    def implies(a, b):
        return E.or_(E.not_(a), b)

    @staticmethod
    def iff(a, b):
        if type(a) is not SymBool and type(b) is not SymBool and \
           type(a) is not SymInt and type(b) is not SymInt:
            return bool(a) == bool(b)
        return _mkbool(_boolterm(a) == _boolterm(b))

    @staticmethod
    def ite(c, a, b):
        """Non-forking if-then-else over ints."""
        if type(c) is bool:
            return a if c else b
        at, bt = _term(a), _term(b)
        (al, ah), (bl, bh) = _rng(a), _rng(b)
        return SymInt.mk(z3.If(_boolterm(c), at, bt), min(al, bl), max(ah, bh))

    @staticmethod
    def truth(x):
        """Non-forking truth value of an int-like (x != 0)."""
        if type(x) is SymInt:
            return _mkbool(x.t != 0)
        if type(x) is SymBool:
            return x
        return bool(x)

    @staticmethod
    def bit(x, i):
        """Non-forking: is bit i of x set."""
        return E.truth((x >> i) & 1)


# ---------------------------------------------------------------------------
# contexts

class Violation:
    neg = None
    ndecl = None
    alts = ()

    def __init__(self, label, key, values, detail):
        self.label = label
        self.key = key
        self.values = values
        self.detail = detail

    def as_dict(self):
        return {"label": self.label, "key": self.key, "values": self.values,
                "detail": self.detail}


class _Base:
    ns = ""

    @contextlib.contextmanager
    def namespace(self, prefix):
        """Inputs declared inside get `prefix` in front of their names (a harness body run twice in one
        path has independent inputs)."""
        old = self.ns
        self.ns = old + prefix
        try:
            yield
        finally:
            self.ns = old

    """API common to the symbolic and the concrete context."""
    symbolic = False

    def note(self, key, n=1):
        self.notes[key] = self.notes.get(key, 0) + n


class Ctx(_Base):
    cur = None
    symbolic = True

    def __init__(self, timeout_ms=60000):
        self.solver = z3.Solver()
        self.solver.set("timeout", timeout_ms)
        self.timeout_ms = timeout_ms
        self.prefix = []
        self.trace = []
        self.queries = 0
        self.solver_s = 0.0
        self.model = None
        self.paths = 0
        self.active = False
        self.aborted = None
        self.decl = []           # [(name, kind, lo, hi, term)] in creation order
        self.tokens = []
        self.observed = []
        self.obligations = 0
        self.discharged = 0
        self.violations = []
        self.notes = {}
        self.shard = None
        self.smt_dump = None     # optional callable(smt2_text, expected)
        self._tight = {}
        self._alt_keys = set()   # violation keys that already carry extra witnesses
        self.abort_witnesses = []

    # ---- solver plumbing
    def _check(self, *extra):
        self.queries += 1
        t = time.time()
        r = self.solver.check(*extra)
        if r == z3.unknown:
            # a time-out on a loaded machine is not a verdict: ask once more with four times the budget
            self.notes["solver-retries"] = self.notes.get("solver-retries", 0) + 1
            self.solver.set("timeout", self.timeout_ms * 4)
            try:
                r = self.solver.check(*extra)
            finally:
                self.solver.set("timeout", self.timeout_ms)
        self.solver_s += time.time() - t
        if r == z3.unknown:
            self.aborted = "solver unknown: %s" % self.solver.reason_unknown()
            raise EngineUnsupported(self.aborted)
        return r

    def start_path(self, prefix):
        self.prefix = prefix
        self.trace = []
        self.solver.push()
        self.model = None
        self.aborted = None
        self.decl = []
        self.tokens = []
        self.observed = []
        self._tight = {}
        self._decided = {}
        self.path_violations = []
        self.active = True

    def end_path(self):
        self.active = False
        self.solver.pop()

    def get_model(self):
        if self.model is None:
            if self._check() != z3.sat:
                self.aborted = "infeasible"
                raise PathEnd("infeasible")
            self.model = self.solver.model()
        return self.model

    def _holds_in_model(self, cond):
        if self.model is None:
            return None
        v = self.model.eval(cond, model_completion=True)
        if z3.is_true(v):
            return True
        if z3.is_false(v):
            return False
        return None

    # ---- inputs
    def fresh(self, name, lo, hi):
        name = self.ns + name
        t = z3.BitVec("in_" + name, W)
        c = z3.And(t >= lo, t <= hi)
        self.solver.add(c)
        if self.model is not None and self._holds_in_model(c) is not True:
            self.model = None
        self.decl.append((name, "int", lo, hi, t))
        if lo == hi:
            return lo
        return SymInt(t, lo, hi)

    def fresh_bool(self, name):
        """A free boolean input; forks immediately and returns a real bool."""
        name = self.ns + name
        t = z3.Bool("in_" + name)
        self.decl.append((name, "bool", 0, 1, t))
        return self.branch(t)

    def fresh_choice(self, name, n):
        """A free choice among n alternatives; forks, returns a real int."""
        name = self.ns + name
        t = z3.BitVec("in_" + name, W)
        self.solver.add(z3.And(t >= 0, t < n))
        self.model = None
        self.decl.append((name, "int", 0, n - 1, t))
        return self.choose([t == i for i in range(n)])

    # ---- decisions
    def _sharding(self):
        if self.shard is None:
            return
        i, n, depth = self.shard
        if len(self.trace) == depth:
            if hash(tuple(k for k, _ in self.trace)) % n != i:
                self.aborted = "shard"
                raise ShardSkip()

    def _shard_owner(self):
        """Is a completed path with fewer than `depth` decisions ours?"""
        if self.shard is None:
            return True
        i, n, depth = self.shard
        if len(self.trace) >= depth:
            return True
        return hash(tuple(k for k, _ in self.trace)) % n == i

    def _forced(self, cond_of):
        """Follow the decision prefix if we are still inside it."""
        idx = len(self.trace)
        if idx >= len(self.prefix):
            return None
        k = self.prefix[idx]
        self.trace.append((k, ()))
        c = cond_of(k)
        self.solver.add(c)
        if self.model is not None and self._holds_in_model(c) is not True:
            self.model = None
        self._sharding()
        return k

    def choose(self, conds, simplified=False, pick=None):
        """Multi-way fork over mutually exclusive, exhaustive conditions.

        Every call whose conditions are not syntactically decided appends
        exactly one trace entry (also when only one alternative is
        feasible), so that re-execution under a prefix stays aligned.
        `pick(model)` may return the index of the alternative a model
        satisfies (else the alternatives are scanned)."""
        if not simplified:
            conds = [z3.simplify(c) for c in conds]
            for i, c in enumerate(conds):
                if z3.is_true(c):
                    return i
            if all(z3.is_false(c) for c in conds):
                self.aborted = "infeasible"
                raise PathEnd("infeasible")
        k = self._forced(lambda k: conds[k])
        if k is not None:
            return k

        def which(m):
            if pick is not None:
                i = pick(m)
                if i is not None:
                    return i
            for i, c in enumerate(conds):
                if z3.is_true(m.eval(c, model_completion=True)):
                    return i
            raise EngineUnsupported("choose: alternatives are not exhaustive")
        cur = which(self.get_model())
        # enumerate the other feasible alternatives: one query each (+1)
        alts = []
        excl = [z3.Not(conds[cur])]
        while len(alts) + 1 < len(conds):
            if self._check(*excl) != z3.sat:
                break
            found = which(self.solver.model())
            if found == cur or found in alts:
                raise EngineUnsupported("choose: alternatives are not exclusive")
            alts.append(found)
            excl.append(z3.Not(conds[found]))
        self.trace.append((cur, tuple(alts)))
        self.solver.add(conds[cur])
        self._sharding()
        return cur

    def branch(self, cond):
        if type(cond) is bool:
            return cond
        if type(cond) is SymBool:
            cond = cond.t
        elif type(cond) is SymInt:
            cond = cond.t != 0
        cond = z3.simplify(cond)
        if z3.is_true(cond):
            return True
        if z3.is_false(cond):
            return False
        hit = self._decided.get(cond.get_id())
        if hit is not None:
            return hit[1]
        k = self._forced(lambda k: cond if k == 0 else z3.Not(cond))
        if k is not None:
            self._decided[cond.get_id()] = (cond, k == 0)
            return k == 0
        self.get_model()
        side = self._holds_in_model(cond)
        if side is None:
            side = self._check(cond) == z3.sat
            self.model = None
        other_sat = self._check(z3.Not(cond) if side else cond) == z3.sat
        k = 0 if side else 1
        self.trace.append((k, (1 - k,) if other_sat else ()))
        self.solver.add(cond if side else z3.Not(cond))
        self._decided[cond.get_id()] = (cond, side)
        self._sharding()
        return side

    def assume(self, cond):
        if type(cond) is bool:
            if not cond:
                self.aborted = "infeasible"
                raise PathEnd("assume(False)")
            return
        t = _boolterm(cond)
        self.solver.add(t)
        if self.model is not None and self._holds_in_model(t) is not True:
            self.model = None

    def concretize(self, s, limit=256):
        lo, hi = s.lo, s.hi
        if hi - lo + 1 > limit:
            lo, hi = self.tighten(s.t, lo, hi, force=True)
            if hi - lo + 1 > limit:
                self.aborted = "concretize: domain too large (%d..%d)" % (lo, hi)
                raise EngineUnsupported(self.aborted)
        cands = list(range(lo, hi + 1))
        k = self.choose([s.t == v for v in cands])
        return cands[k]

    def tighten(self, t, lo, hi, want_hi=None, force=False):
        """Exact min/max of term t under the path condition (binary search)."""
        key = t.get_id()
        if key in self._tight:
            return self._tight[key]
        self.get_model()
        lim = 1 << (W - 1)
        lo = max(lo, -lim)
        hi = min(hi, lim - 1)
        # max
        a, b = lo, hi
        mv = self.model.eval(t, model_completion=True).as_signed_long()
        a = max(a, mv)
        while a < b:
            mid = (a + b + 1) // 2
            if self._check(t >= mid) == z3.sat:
                a = mid
            else:
                b = mid - 1
        nhi = a
        a, b = lo, min(mv, nhi)
        while a < b:
            mid = (a + b) // 2
            if self._check(t <= mid) == z3.sat:
                b = mid
            else:
                a = mid + 1
        nlo = a
        if not force and not _fits(nlo, nhi):
            self.aborted = "value may exceed %d bits (%d..%d)" % (W, nlo, nhi)
            raise EngineUnsupported(self.aborted)
        self._tight[key] = (nlo, nhi)
        return nlo, nhi

    # ---- text tokens
    def token(self, s, spec):
        self.tokens.append(s)
        return "\x01%d:%s\x02" % (len(self.tokens) - 1, spec)

    # ---- obligations
    def _values(self, model):
        vals = {}
        for name, kind, lo, hi, t in self.decl:
            v = model.eval(t, model_completion=True)
            if kind == "bool":
                vals[name] = bool(z3.is_true(v))
            else:
                iv = v.as_signed_long()
                if not (lo <= iv <= hi):
                    iv = lo
                vals[name] = iv
        return vals

    def values(self):
        return self._values(self.get_model())

    def prove(self, cond, label, key=None, detail=None):
        """Obligation: cond holds for every value on this path.  No fork."""
        self.obligations += 1
        if type(cond) is bool:
            ok = cond
            model = None
        else:
            t = _boolterm(cond)
            neg = z3.simplify(z3.Not(t))
            if z3.is_false(neg):
                ok = True
            else:
                self.get_model()
                if self.smt_dump is not None:
                    self.solver.push()
                    self.solver.add(neg)
                    txt = self.solver.to_smt2()
                    self.solver.pop()
                r = self._check(neg)
                ok = r == z3.unsat
                if self.smt_dump is not None:
                    self.smt_dump(txt, "unsat" if ok else "sat")
                model = None if ok else self.solver.model()
        if ok:
            self.discharged += 1
            return True
        if model is None:
            model = self.get_model()
        v = Violation(label, key or label, self._values(model),
                      detail if detail is None else str(detail))
        v.neg = None if type(cond) is bool else neg
        v.ndecl = len(self.decl)
        self.path_violations.append(v)
        return False

    def alt_witnesses(self, neg, k, tag=""):
        """Up to k further models of (path condition [and neg]) that differ
        from z3's default model: inputs are pinned one by one to pseudo-random
        or extreme values of their range as long as the conjunction stays
        satisfiable.  Used only to look for a *concrete* failure where the
        symbolic encoding has a gap (a counterexample that does not reproduce,
        or an unsupported operation): such a run can turn 'inconclusive' into a
        replayed violation, never into a pass."""
        import random
        out = []
        decl = [d for d in self.decl if d[2] != d[3]][:48]
        saved_to = self.timeout_ms if hasattr(self, "timeout_ms") else None
        for n in range(k):
            rng = random.Random(repr((tag, n)))
            extra = [] if neg is None else [neg]
            try:
                for name, kind, lo, hi, t in decl:
                    if kind == "bool":
                        c = t if rng.random() < 0.5 else z3.Not(t)
                    else:
                        mode = rng.random()
                        if n == 0 or mode < 0.15:
                            r = hi
                        elif mode < 0.25:
                            r = lo
                        else:
                            r = rng.randint(lo, hi)
                        c = t == r
                    self.queries += 1
                    if self.solver.check(*(extra + [c])) == z3.sat:
                        extra.append(c)
                self.queries += 1
                if self.solver.check(*extra) == z3.sat:
                    vals = self._values(self.solver.model())
                    if vals not in out:
                        out.append(vals)
            except (PathEnd, EngineUnsupported, z3.Z3Exception):
                break
        return out

    def complete_violations(self):
        """Inputs declared after a violation was recorded are missing from
        its model: re-solve under the final path condition so that the
        replay gets a complete assignment."""
        for v in self.path_violations:
            if getattr(v, "ndecl", None) == len(self.decl):
                continue
            try:
                if v.neg is None:
                    v.values = self._values(self.get_model())
                elif self._check(v.neg) == z3.sat:
                    v.values = self._values(self.solver.model())
            except (PathEnd, EngineUnsupported):
                pass
        for v in self.path_violations:
            if v.key not in self._alt_keys and len(self._alt_keys) < 64:
                self._alt_keys.add(v.key)
                v.alts = self.alt_witnesses(None, 6, tag=v.key)

    def fail(self, label, key=None, detail=None):
        return self.prove(False, label, key, detail)

    def observe(self, name, value):
        self.observed.append((name, value))

    def evaluate(self, value, model):
        """Concrete value of an observable under a model."""
        from . import shims
        if type(value) is SymInt:
            return model.eval(value.t, model_completion=True).as_signed_long()
        if type(value) is SymBool:
            return bool(z3.is_true(model.eval(value.t, model_completion=True)))
        if type(value) is SymScaled:
            return value.concrete(model.eval(value.base.t, model_completion=True).as_signed_long())
        if isinstance(value, shims.SymBytes):
            return bytes(self.evaluate(b, model) for b in value.items)
        if isinstance(value, (list, tuple)):
            return type(value)(self.evaluate(v, model) for v in value)
        if isinstance(value, dict):
            return {k: self.evaluate(v, model) for k, v in value.items()}
        if isinstance(value, str) and "\x01" in value:
            return self.render(value, model)
        return value

    def render(self, text, model):
        """Replace tokens by the formatted concrete value."""
        import re

        def sub(m):
            s = self.tokens[int(m.group(1))]
            if type(s) is SymScaled:
                v = s.concrete(model.eval(s.base.t, model_completion=True).as_signed_long())
            else:
                v = model.eval(s.t, model_completion=True).as_signed_long()
            spec = m.group(2)
            if spec == "c":
                return chr(v)
            if spec == "r":
                return repr(v)
            try:
                return format(v, spec)
            except (ValueError, TypeError):
                # a token formatted a second time by the code under test (nested format specs): not
                # renderable - leave a marker; the concrete re-run of the path shows the real text
                return "<unrenderable:%s>" % spec
        return re.sub("\x01(\\d+):([^\x02]*)\x02", sub, text)

    def text_equal(self, s1, s2):
        """Non-forking: condition under which two token texts are equal, or
        False if they differ structurally."""
        import re
        pat = re.compile("\x01(\\d+):([^\x02]*)\x02")
        l1, l2 = pat.split(s1), pat.split(s2)
        if len(l1) != len(l2):
            return False
        conds = []
        for i in range(0, len(l1), 3):
            if l1[i] != l2[i]:
                return False
        for i in range(1, len(l1), 3):
            if l1[i + 1] != l2[i + 1]:
                return False
            a, b = self.tokens[int(l1[i])], self.tokens[int(l2[i])]
            if type(a) is SymScaled or type(b) is SymScaled:
                if type(a) is not type(b) or a.factor != b.factor:
                    return False
                a, b = a.base, b.base
            conds.append(E.eq(a, b))
        return E.and_(*conds) if conds else True


class ConcreteCtx(_Base):
    """Runs the same harness on plain ints taken from a model."""

    def __init__(self, values):
        self.vals = values
        self.observed = []
        self.path_violations = []
        self.obligations = 0
        self.discharged = 0
        self.notes = {}
        self.used = set()

    def fresh(self, name, lo, hi):
        name = self.ns + name
        self.used.add(name)
        if name not in self.vals:
            if self.path_violations:
                return lo      # the violation being replayed is already confirmed
            raise ReplayMismatch("no value for input %r" % name)
        v = self.vals[name]
        if not (lo <= v <= hi):
            raise ReplayMismatch("value of %r out of range" % name)
        return v

    def fresh_bool(self, name):
        name = self.ns + name
        self.used.add(name)
        if name not in self.vals:
            if self.path_violations:
                return False
            raise ReplayMismatch("no value for input %r" % name)
        return bool(self.vals[name])

    def fresh_choice(self, name, n):
        return self.fresh(name, 0, n - 1)

    def branch(self, cond):
        return bool(cond)

    def choose(self, conds):
        for i, c in enumerate(conds):
            if c:
                return i
        raise ReplayMismatch("no alternative holds")

    def assume(self, cond):
        if not cond:
            raise ReplayMismatch("assumption violated in concrete run")

    def prove(self, cond, label, key=None, detail=None):
        self.obligations += 1
        if cond:
            self.discharged += 1
            return True
        self.path_violations.append(
            Violation(label, key or label, dict(self.vals),
                      detail if detail is None else str(detail)))
        return False

    def fail(self, label, key=None, detail=None):
        return self.prove(False, label, key, detail)

    def observe(self, name, value):
        self.observed.append((name, value))

    def text_equal(self, s1, s2):
        return s1 == s2

    def values(self):
        return dict(self.vals)


class ReplayMismatch(Exception):
    pass


# ---------------------------------------------------------------------------
# exploration

class PathResult:
    __slots__ = ("label", "values", "observed", "violations", "ndec")

    def __init__(self, label, values, observed, violations, ndec):
        self.label = label
        self.values = values
        self.observed = observed
        self.violations = violations
        self.ndec = ndec


_GAP_COUNT = {}         # per worker process: unencodable paths met so far, by case


def explore(fn, shard=None, max_paths=None, deadline=None, on_path=None,
            timeout_ms=60000, smt_dump=None, root=None, donate=None, before_path=None):
    """Exhaustively explore harness ``fn`` below the decision prefix ``root``.
    Returns (ctx, status).

    status is "exhausted" or an inconclusive reason string.  ``on_path`` is
    called with a PathResult for every completed feasible path.  ``donate``
    (optional) is called with the pending stack after every path and may
    remove prefixes from it (to hand them to another worker).
    """
    ctx = Ctx(timeout_ms=timeout_ms)
    ctx.shard = shard
    ctx.smt_dump = smt_dump
    Ctx.cur = ctx
    stack = [list(root or [])]
    status = "exhausted"
    gaps, gap_witnesses = [], []
    gkey = getattr(getattr(fn, "__self__", None), "name", None) or getattr(fn, "__name__", "?")
    try:
        while stack:
            if max_paths is not None and ctx.paths >= max_paths:
                status = "budget: max_paths=%d reached" % max_paths
                break
            if deadline is not None:
                dl = deadline() if callable(deadline) else deadline
                if isinstance(dl, tuple):           # (time, reason): stop early for another reason
                    if time.time() > dl[0]:
                        status = dl[1]
                        break
                elif time.time() > dl:
                    status = "budget: deadline reached"
                    break
            prefix = stack.pop()
            if before_path is not None:
                before_path()
            ctx.start_path(prefix)
            label = None
            skip = False
            gap = None
            try:
              try:
                try:
                    label = fn(ctx)
                except ShardSkip:
                    skip = True
                except PathEnd:
                    skip = True
                except EngineUnsupported:
                    shared_prefix = ctx.shard is not None and ctx.shard[0] != 0 and len(ctx.trace) < ctx.shard[2]
                    if ctx.aborted not in ("shard", "infeasible") and not shared_prefix and _GAP_COUNT.get(gkey, 0) <= 8:
                        # (a path that ends before the sharding depth is seen by every shard: only the first
                        # one looks for witnesses)
                        try:
                            ctx.aborted = None
                            ctx.abort_witnesses = ctx.alt_witnesses(None, 6 if not gaps else 2, tag="abort%d" % len(gaps))
                        except BaseException:  # noqa
                            pass
                    raise
                if ctx.aborted is not None and not skip:
                    # a control exception was swallowed by the code under test
                    if ctx.aborted in ("shard", "infeasible"):
                        skip = True
                    else:
                        raise EngineUnsupported(ctx.aborted)
                if not skip:
                    # the path must be feasible (assumptions may have been
                    # added after the last check)
                    try:
                        model = ctx.get_model()
                    except PathEnd:
                        skip = True
                if not skip and not ctx._shard_owner():
                    skip = True
                if not skip:
                    ctx.paths += 1
                    vals = ctx._values(model)
                    obs = [(n, ctx.evaluate(v, model)) for n, v in ctx.observed]
                    if isinstance(label, str) and "\x01" in label:
                        label = ctx.render(label, model)
                    if ctx.path_violations:
                        ctx.complete_violations()
                    ctx.violations.extend(ctx.path_violations)
                    if on_path is not None:
                        on_path(PathResult(label, vals, obs,
                                           list(ctx.path_violations),
                                           len(ctx.trace)))
              except EngineUnsupported as e:
                # this path cannot be encoded: the result is inconclusive whatever happens next, but the other
                # branches are still explored (and this path's witnesses run concretely) - that can only turn
                # "inconclusive" into a replayed violation, never into a pass
                gap = "unsupported: %s" % (e,)
                gaps.append(gap)
                for w in (ctx.abort_witnesses or []):
                    if len(gap_witnesses) < 120 and w not in gap_witnesses:
                        gap_witnesses.append(w)
                ctx.abort_witnesses = None
                _GAP_COUNT[gkey] = _GAP_COUNT.get(gkey, 0) + 1
                if len(gaps) > 6 or _GAP_COUNT[gkey] > 8 or "diverged" in gap:
                    # (bounded per shard and per worker process: a change that makes every path unencodable
                    # must not turn the run into an hour of witness searches)
                    raise
            finally:
                trace = ctx.trace
                ctx.end_path()
            if gap is not None and len(trace) < len(prefix):
                continue
            if len(trace) < len(prefix):
                raise EngineUnsupported(
                    "re-execution diverged from its decision prefix (non-deterministic harness?)")
            for i in range(len(prefix), len(trace)):
                for a in trace[i][1]:
                    stack.append([t[0] for t in trace[:i]] + [a])
            if donate is not None and len(stack) > 1:
                donate(stack)
    except EngineUnsupported as e:
        status = "unsupported: %s" % (e,)
    finally:
        Ctx.cur = None
    if gaps:
        if status == "exhausted" or status.startswith("budget"):
            status = gaps[0] + (" (and %d more paths)" % (len(gaps) - 1) if len(gaps) > 1 else "")
        ctx.abort_witnesses = gap_witnesses + [w for w in (ctx.abort_witnesses or []) if w not in gap_witnesses]
    return ctx, status
