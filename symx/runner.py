"""Case runner: parallel exploration, per-path cross-validation, replay,
known findings, evidence."""
import contextlib
import hashlib
import importlib
import json
import multiprocessing
import os
import random
import sys
import time
import traceback

from . import core, shims

VERIF = os.path.dirname(os.path.dirname(os.path.abspath(__file__)))
REPO = os.environ.get("VERIF_REPO", "/repo")


class Case:
    """One unit of exploration: harness function + parameters."""

    def __init__(self, name, fn, params=None, width=64, shards=1, shard_depth=8,
                 install=None, registries=True, max_paths=None, timeout_ms=60000,
                 tags=(), repeat=1):
        self.name = name
        self.fn = fn
        self.params = params or {}
        self.width = width
        self.shards = shards
        self.shard_depth = shard_depth
        self.install = install          # callable(inst) for extra symbolic-mode patches
        self.registries = registries    # wrap the command registries in SymDict
        self.max_paths = max_paths
        self.timeout_ms = timeout_ms
        self.tags = tuple(tags)
        self.repeat = repeat            # run the body this many times in one path (independent inputs)

    def body(self, ctx):
        """The harness body; with repeat=n it runs n times in one path, each run with its own inputs
        (names prefixed r1., r2., ... except for the last run), so that state the code under test keeps
        between calls is exercised by a history inside the path."""
        if self.repeat <= 1:
            return self.fn(ctx, **self.params)
        labels = []
        for i in range(1, self.repeat):
            with ctx.namespace("r%d." % i):
                labels.append(self.fn(ctx, **self.params))
        labels.append(self.fn(ctx, **self.params))
        return " | ".join(l if isinstance(l, str) else repr(l) for l in labels)


# ---------------------------------------------------------------------------
# registries of the library that are looked up with (possibly) symbolic keys

def _registry_shaped(d):
    """A dict that looks like one of the library's decode tables: non-empty, every key an int or a tuple of
    ints (values: classes, lists of classes, or again such dicts)."""
    if type(d) is not dict or not d:
        return False
    for k in d:
        if isinstance(k, bool):
            return False
        if isinstance(k, int) or k is None:
            continue
        if isinstance(k, tuple) and k and all(isinstance(x, int) and not isinstance(x, bool) for x in k):
            continue
        return False
    return True


def _to_symdict(d):
    """SymDict copy of a registry, nested registries included."""
    return shims.SymDict({k: (_to_symdict(v) if _registry_shaped(v) else v) for k, v in d.items()})


def registry_sites():
    """(owner class, attribute name) of every class-level table of the command / event / address classes that
    is keyed by ints or tuples of ints - the registries filled at import by the metaclasses, whatever they are
    called and however they are nested.  They are looked up with symbolic keys (opcodes, device types,
    instance types, event codes) and are therefore wrapped in SymDict for the symbolic run."""
    import dali.command as C
    import dali.address as A
    out, seen = [], set()

    def walk(cls):
        if cls in seen:
            return
        seen.add(cls)
        for name, val in list(vars(cls).items()):
            if name.startswith("__"):
                continue
            if _registry_shaped(val) or isinstance(val, shims.SymDict):
                out.append((cls, name))
        for sub in cls.__subclasses__():
            walk(sub)
    for root in (C.Command, C.Response, A.Address, A.Instance):
        walk(root)
    return out


@contextlib.contextmanager
def symbolic_mode(case):
    """Install all shims for a symbolic run of `case`."""
    import dali.frame, dali.command, dali.address  # noqa
    import dali.gear, dali.device                   # noqa
    guard = StateGuard().scan()
    with shims.Installed(shims.dali_modules()) as inst:
        if case.registries:
            for cls, attr in registry_sites():
                cur = getattr(cls, attr)
                if not isinstance(cur, shims.SymDict):
                    inst.set(cls, attr, _to_symdict(cur))
        if case.install is not None:
            case.install(inst)
        guard.scan()
        inst.guard = guard
        StateGuard.active = guard
        try:
            yield inst
        finally:
            StateGuard.active = None
            inst.suspend()
            guard.restore()
            inst.resume()


# ---------------------------------------------------------------------------
# state guard: every path starts from the library's import-time state

_PLAIN = (int, str, bytes, bool, float, type(None), tuple, frozenset)
_CONT = (dict, list, set, bytearray)


class StateGuard:
    """Snapshot of the class- and module-level state of the dali package, restored before every path and
    before every concrete run.

    The explorer re-executes the harness once per path and assumes that each execution starts from the
    same state.  Code under test that keeps state between calls (a module-level memo, a class-level cache,
    a counter) would otherwise carry values - possibly symbolic ones - from one path into the next, and a
    counterexample found on such a path would not replay.  With the guard, state kept between calls can
    only influence a path through calls made *inside* that path, which is what the history cases do.
    Tracked: the contents of every dict/list/set/bytearray bound to a global of a dali module or to an
    attribute of a class defined there, and every such binding whose value is plain data.  Objects are
    compared by identity, never with == (they may hold symbolic values)."""

    active = None

    def __init__(self):
        self.conts = {}       # id -> (obj, saved contents)
        self.binds = {}       # (id(owner), name) -> (owner, name, value)
        self.known = {}       # id(owner) -> (owner, set of names)
        self.restored = 0

    def _owners(self):
        seen, out = set(), []
        for m in shims.dali_modules():
            out.append(m)
            for v in list(vars(m).values()):
                # long-lived instances bound to module globals (the memory bank objects, shared exception
                # objects): their attributes are process-wide state too
                if not isinstance(v, type) and hasattr(v, "__dict__") and not callable(v) \
                        and (type(v).__module__ or "").startswith("dali") and id(v) not in seen \
                        and not isinstance(v, BaseException):
                    seen.add(id(v))
                    out.append(v)
                if isinstance(v, type) and (v.__module__ or "").startswith("dali") and id(v) not in seen:
                    stack = [v]
                    while stack:
                        c = stack.pop()
                        if id(c) in seen:
                            continue
                        seen.add(id(c))
                        out.append(c)
                        for w in list(vars(c).values()):
                            if isinstance(w, type) and (w.__module__ or "").startswith("dali"):
                                stack.append(w)
        return out

    @staticmethod
    def _snap(obj):
        if isinstance(obj, dict):
            return list(dict.items(obj))
        if isinstance(obj, set):
            return list(set.__iter__(obj))
        return list(obj)

    @staticmethod
    def _same(obj, saved):
        if isinstance(obj, dict):
            cur = dict.items(obj)
            return dict.__len__(obj) == len(saved) and all(k is k2 and v is v2 for (k, v), (k2, v2) in zip(cur, saved))
        if isinstance(obj, set):
            return set.__len__(obj) == len(saved) and sorted(map(id, set.__iter__(obj))) == sorted(map(id, saved))
        return len(obj) == len(saved) and all(a is b for a, b in zip(obj, saved))

    def scan(self):
        """(Re)scan; bindings and containers seen for the first time are added to the snapshot."""
        for o in self._owners():
            names = self.known.setdefault(id(o), (o, set()))[1]
            for k, v in list(vars(o).items()):
                if k.startswith("__") and k.endswith("__"):
                    continue
                names.add(k)
                if isinstance(v, _CONT) and id(v) not in self.conts:
                    self.conts[id(v)] = (v, self._snap(v))
                if isinstance(v, _PLAIN) and (id(o), k) not in self.binds:
                    self.binds[(id(o), k)] = (o, k, v)
        return self

    def restore(self):
        n = 0
        for obj, saved in self.conts.values():
            if not self._same(obj, saved):
                n += 1
                if isinstance(obj, dict):
                    dict.clear(obj)
                    for k, v in saved:
                        dict.__setitem__(obj, k, v)
                    if isinstance(obj, shims.SymDict):
                        obj._cache = None
                elif isinstance(obj, set):
                    set.clear(obj)
                    set.update(obj, saved)
                else:
                    obj[:] = saved
        for o, names in self.known.values():
            for k, v in list(vars(o).items()):
                if k.startswith("__") and k.endswith("__"):
                    continue
                if k not in names:
                    n += 1
                    try:
                        delattr(o, k)
                    except Exception:  # noqa
                        pass
                    continue
                b = self.binds.get((id(o), k))
                if b is not None and v is not b[2] and (isinstance(v, _PLAIN) or core_is_sym(v)):
                    n += 1
                    setattr(o, k, b[2])
        self.restored += n
        return n


def core_is_sym(v):
    return isinstance(v, (core.SymInt, core.SymBool))


# ---------------------------------------------------------------------------
# functions-executed collector (sys.monitoring)

class FnCollector:
    TOOL = 3

    def __init__(self):
        self.seen = set()
        self.on = False

    def start(self):
        mon = sys.monitoring
        try:
            mon.use_tool_id(self.TOOL, "symx-fn")
        except ValueError:
            return
        prefix = os.path.join(REPO, "dali") + os.sep

        def cb(code, off):
            fn = code.co_filename
            if (code.co_flags & 1) and fn.startswith(prefix) and \
                    os.sep + "tests" + os.sep not in fn:
                mod = fn[len(REPO) + 1:-3].replace(os.sep, ".")
                self.seen.add(mod + ":" + code.co_qualname)
            return mon.DISABLE
        mon.register_callback(self.TOOL, mon.events.PY_START, cb)
        mon.set_events(self.TOOL, mon.events.PY_START)
        self.on = True

    def stop(self):
        if self.on:
            mon = sys.monitoring
            mon.set_events(self.TOOL, 0)
            mon.register_callback(self.TOOL, mon.events.PY_START, None)
            mon.free_tool_id(self.TOOL)
            self.on = False


# ---------------------------------------------------------------------------
# concrete runs

def run_concrete(case, values):
    """Run the harness body on plain ints, no shims.  Returns
    (label, observed, violations) or raises."""
    cctx = core.ConcreteCtx(values)
    saved = core.Ctx.cur
    core.Ctx.cur = None
    if StateGuard.active is not None:
        StateGuard.active.restore()
    try:
        label = case.body(cctx)
    finally:
        core.Ctx.cur = saved
        if StateGuard.active is not None:
            StateGuard.active.restore()
    return label, cctx.observed, cctx.path_violations


def _norm(v):
    """Normalise observables for comparison."""
    if isinstance(v, (bytes, bytearray)):
        return ("bytes", bytes(v).hex())
    if isinstance(v, bool):
        return ("bool", v)
    if isinstance(v, int):
        return int(v)
    if isinstance(v, (list, tuple)):
        return [_norm(x) for x in v]
    if isinstance(v, dict):
        return {str(k): _norm(x) for k, x in v.items()}
    if v is None or isinstance(v, (str, float)):
        return v
    return repr(v)


# ---------------------------------------------------------------------------
# worker

def _second_solver(text):
    import cvc5
    s = cvc5.Solver()
    s.setOption("tlimit-per", "15000")
    p = cvc5.InputParser(s)
    if "(set-logic" not in text:
        text = "(set-logic ALL)\n" + text
    p.setStringInput(cvc5.InputLanguage.SMT_LIB_2_6, text, "q")
    sm = p.getSymbolManager()
    res = None
    while True:
        cmd = p.nextCommand()
        if cmd.isNull():
            break
        out = cmd.invoke(s, sm)
        if "(error" in str(out):
            return "error"
        o = str(out).strip()
        if o in ("sat", "unsat", "unknown"):
            res = o
    return res


def _new_stats(case_name):
    return {"case": case_name, "paths": 0, "queries": 0, "solver_s": 0.0,
            "labels": {}, "violations": [], "status": "exhausted",
            "obligations": 0, "discharged": 0, "crossval": 0, "samples": [],
            "second": {"checked": 0, "agree": 0}, "notes": {}, "nontrivial": 0,
            "wall_s": 0.0, "items": 0, "errors": [], "suspects": []}


def _try_witnesses(case, witnesses, out, seen, why, opts=None):
    """The symbolic encoding has a gap on this path (a counterexample that does
    not reproduce, or an unsupported operation).  Run the real code on further
    solver models of the path condition: a concrete failure is a genuine,
    already-replayed violation; no failure leaves the result inconclusive."""
    for vals in witnesses:
        try:
            clabel, cobs, cviol = run_concrete(case, vals)
        except BaseException:  # noqa
            continue
        out["notes"]["concrete-witness-runs"] = out["notes"].get("concrete-witness-runs", 0) + 1
        for cv in cviol:
            if cv.key in seen:
                continue
            seen.add(cv.key)
            rec = cv.as_dict()
            rec["values"] = vals
            rec["case"] = case.name
            rec["reproduced"] = True
            rec["detail"] = "%s [found on a solver witness of the path after: %s]" % (cv.detail, why[:200])
            out["violations"].append(rec)
            if opts is not None and opts.get("stop") is not None and cv.key not in opts.get("known_keys", set()):
                # (a concrete failure is its own replay: it decides the run like any confirmed violation)
                with opts["stop"].get_lock():
                    if opts["stop"].value == 0.0:
                        opts["stop"].value = time.time() + opts.get("stop_grace", 10.0)


STOPPED = "stopped: a violation was confirmed, exploration cut short"


def _deadline(opts):
    stop, dl = opts.get("stop"), opts.get("deadline")
    if stop is None:
        return dl

    def f():
        s = stop.value
        if s:
            return (s, STOPPED)
        return dl
    return f


def run_item(case, root, tier, seed, opts, out, donate=None):
    """Explore the subtree of `case` below decision prefix `root`, adding to
    the per-case statistics dict `out`."""
    t0 = time.time()
    core.set_width(case.width)
    rng = random.Random(repr((seed, case.name, root)))
    crossval_frac = opts.get("crossval", 1.0)
    second_frac = opts.get("second", 0.0)
    errors = out["errors"]
    state = {}

    def on_path(pr):
        lab = pr.label if isinstance(pr.label, str) else repr(pr.label)
        out["labels"][lab] = out["labels"].get(lab, 0) + 1
        if pr.ndec >= 1:
            out["nontrivial"] += 1
        if len(out["samples"]) < 2 or (len(out["samples"]) < 5 and rng.random() < 0.02):
            out["samples"].append({"case": case.name, "inputs": pr.values,
                                   "outcome": lab, "decisions": pr.ndec})
        if not (pr.violations or rng.random() < crossval_frac):
            return
        # concrete cross-validation on the real, un-shimmed code
        inst = state["inst"]
        inst.suspend()
        try:
            clabel, cobs, cviol = run_concrete(case, pr.values)
        except core.ReplayMismatch as e:
            errors.append("crossval: %s: %s inputs=%r" % (case.name, e, pr.values))
            out["suspects"].append(pr.values)
            return
        except Exception as e:
            errors.append("crossval: concrete run of %s raised %r inputs=%r"
                          % (case.name, e, pr.values))
            out["suspects"].append(pr.values)
            return
        finally:
            inst.resume()
        out["crossval"] += 1
        if pr.violations and opts.get("stop") is not None:
            confirmed = {cv.key for cv in cviol} & {v.key for v in pr.violations}
            if confirmed - opts.get("known_keys", set()):
                # a replay-confirmed violation that is not a listed finding decides the run: finish the
                # paths in flight for a short while (more witnesses for the report), then stop
                with opts["stop"].get_lock():
                    if opts["stop"].value == 0.0:
                        opts["stop"].value = time.time() + opts.get("stop_grace", 10.0)
        clab = clabel if isinstance(clabel, str) else repr(clabel)
        if clab != lab:
            errors.append("crossval label mismatch in %s: symbolic %r concrete %r inputs=%r"
                          % (case.name, lab, clab, pr.values))
            out["suspects"].append(pr.values)
            return
        so = [(n, _norm(v)) for n, v in pr.observed]
        co = [(n, _norm(v)) for n, v in cobs]
        if so != co:
            diff = [(a, b) for a, b in zip(so, co) if a != b][:3]
            errors.append("crossval observable mismatch in %s: (symbolic, concrete)=%r inputs=%r"
                          % (case.name, diff or (so[-3:], co[-3:]), pr.values))
            out["suspects"].append(pr.values)

    second_q = []

    def smt_dump(text, expected):
        if rng.random() < second_frac:
            second_q.append((text, expected))

    try:
        with symbolic_mode(case) as inst:
            state["inst"] = inst
            ctx, status = core.explore(
                case.body, root=root, donate=donate, before_path=inst.guard.restore,
                max_paths=case.max_paths, deadline=_deadline(opts), on_path=on_path,
                timeout_ms=case.timeout_ms,
                smt_dump=smt_dump if second_frac > 0 else None)
        out["paths"] += ctx.paths
        out["queries"] += ctx.queries
        out["solver_s"] += ctx.solver_s
        out["obligations"] += ctx.obligations
        out["discharged"] += ctx.discharged
        for k, v in ctx.notes.items():
            out["notes"][k] = out["notes"].get(k, 0) + v
        if status != "exhausted" and out["status"] == "exhausted":
            out["status"] = status
        if errors and out["status"] == "exhausted":
            out["status"] = "engine: " + errors[0]
        # replay each violation concretely (own model), de-duplicated by key
        seen = set(v["key"] for v in out["violations"])
        for v in ctx.violations:
            if v.key in seen:
                continue
            seen.add(v.key)
            rec = v.as_dict()
            rec["case"] = case.name
            try:
                clabel, cobs, cviol = run_concrete(case, v.values)
                rec["reproduced"] = any(cv.key == v.key for cv in cviol)
                if not rec["reproduced"]:
                    rec["concrete_outcome"] = repr(clabel)
                    rec["concrete_violations"] = [cv.key for cv in cviol]
            except BaseException as e:  # noqa
                rec["reproduced"] = False
                rec["concrete_outcome"] = "exception: %r" % (e,)
            out["violations"].append(rec)
            if not rec["reproduced"]:
                _try_witnesses(case, v.alts, out, seen, "counterexample for %r did not reproduce" % v.key, opts)
        if status.startswith("unsupported") and ctx.abort_witnesses:
            _try_witnesses(case, ctx.abort_witnesses, out, seen, status, opts)
        for text, expected in second_q:
            r = _second_solver(text)
            if r not in ("sat", "unsat"):
                # time limit / unknown: no second opinion on this obligation
                out["second"]["unknown"] = out["second"].get("unknown", 0) + 1
                continue
            out["second"]["checked"] += 1
            if r == expected:
                out["second"]["agree"] += 1
            elif out["status"] == "exhausted":
                out["status"] = "engine: second solver says %s, z3 said %s" % (r, expected)
    except BaseException as e:  # noqa
        out["status"] = "engine: %s" % "".join(
            traceback.format_exception(type(e), e, e.__traceback__))[-3000:]
    out["wall_s"] += time.time() - t0
    out["items"] += 1


def _cases(mod, tier):
    """The case list of a tier (see THOROUGH_CASES in run_property)."""
    if tier == "thorough" and getattr(mod, "THOROUGH_CASES", "deep") == "quick" \
            and not os.environ.get("VERIF_THOROUGH_DEEP"):
        return mod.cases("quick")
    return mod.cases(tier)


def worker_main(wid, nworkers, modname, tier, seed, opts, work_q, result_q, pending):
    """Worker process: take (case index, prefix) items until none are pending
    anywhere; donate parts of the local stack when the queue runs dry."""
    import queue as _q
    stats = {}
    coll = FnCollector()
    try:
        mod = importlib.import_module(modname)
        cases = _cases(mod, tier)
        coll.start()

        def donate(stack):
            # hand the oldest (shallowest = largest) prefixes to idle workers
            try:
                hungry = work_q.qsize() < nworkers
            except NotImplementedError:
                hungry = True
            if not hungry:
                return
            n = max(1, len(stack) // 2)
            give, stack[:] = stack[:n], stack[n:]
            with pending.get_lock():
                pending.value += len(give)
            for pfx in give:
                work_q.put((cur_case[0], pfx))

        cur_case = [None]
        while True:
            try:
                cidx, root = work_q.get(timeout=0.05)
            except _q.Empty:
                if pending.value <= 0:
                    break
                continue
            cur_case[0] = cidx
            case = cases[cidx]
            out = stats.get(case.name)
            if out is None:
                out = stats[case.name] = _new_stats(case.name)
            stop = opts.get("stop")
            if stop is not None and stop.value and time.time() > stop.value:
                if out["status"] == "exhausted":
                    out["status"] = STOPPED
            else:
                run_item(case, root, tier, seed, opts, out,
                         donate=donate if nworkers > 1 else None)
            with pending.get_lock():
                pending.value -= 1
    except BaseException as e:  # noqa
        stats.setdefault("<worker>", _new_stats("<worker>"))["status"] = \
            "engine: worker crashed: %r" % (e,)
        with pending.get_lock():
            pending.value = -10 ** 6
    coll.stop()
    result_q.put((wid, list(stats.values()), sorted(coll.seen)))


# ---------------------------------------------------------------------------
# known findings

def load_known(prop):
    path = os.path.join(VERIF, "known_findings.txt")
    known = []
    if os.path.exists(path):
        for line in open(path):
            line = line.strip()
            if not line.startswith("finding:"):
                continue
            body = line[len("finding:"):].strip()
            fields, _, desc = body.partition("::")
            d = dict(f.split("=", 1) for f in fields.split() if "=" in f)
            if d.get("property") == prop and "key" in d:
                known.append((d["key"], desc.strip()))
    return known


# ---------------------------------------------------------------------------
# main entry

def run_property(prop, modname, tier, seed, meta, jobs=None, budget_s=None):
    """Run all cases of a property.  Returns the exit code."""
    t0 = time.time()
    mod = importlib.import_module(modname)
    cases = _cases(mod, tier)
    if tier == "thorough" and getattr(mod, "THOROUGH_CASES", "deep") == "quick" \
            and not os.environ.get("VERIF_THOROUGH_DEEP"):
        # the deeper case list of this property could not be re-validated end to end in the time available
        # after the last round of harness changes: the thorough tier then runs the quick tier's cases with
        # the second solver on every obligation (stated in the evidence)
        meta = dict(meta, bounds=list(meta.get("bounds", [])) +
                    ["thorough tier = the quick tier's cases with %d %% of the obligations re-checked by the second "
                     "solver (deeper case list not re-validated after the last harness changes)"
                     % round(100 * float(getattr(mod, "THOROUGH_SECOND", 1.0)))])
    opts = {"crossval": 1.0, "second": float(getattr(mod, "THOROUGH_SECOND", 1.0)) if tier == "thorough" else 0.02}
    if "VERIF_SECOND" in os.environ:
        opts["second"] = float(os.environ["VERIF_SECOND"])
    if "VERIF_CROSSVAL" in os.environ:
        opts["crossval"] = float(os.environ["VERIF_CROSSVAL"])
    if budget_s is None:
        budget_s = float(os.environ.get("VERIF_BUDGET_S", "0")) or (1500 if tier == "quick" else 6 * 3600)
    if budget_s:
        opts["deadline"] = t0 + budget_s
    jobs = jobs or int(os.environ.get("VERIF_JOBS", "0")) or min(16, os.cpu_count() or 1)
    mp = multiprocessing.get_context("fork")
    if not os.environ.get("VERIF_NO_EARLY_STOP"):
        opts["stop"] = mp.Value("d", 0.0)
        opts["known_keys"] = set(k for k, _ in load_known(prop))
    work_q, result_q = mp.Queue(), mp.Queue()
    pending = mp.Value("i", len(cases))
    order = sorted(range(len(cases)), key=lambda i: -getattr(cases[i], "weight", 1))
    for i in order:
        work_q.put((i, []))
    procs = [mp.Process(target=worker_main,
                        args=(w, jobs, modname, tier, seed, opts, work_q, result_q, pending))
             for w in range(jobs)]
    for p in procs:
        p.start()
    results, functions_all = [], set()
    got = 0
    import queue as _q
    while got < jobs:
        try:
            wid, stats, fns = result_q.get(timeout=1.0)
        except _q.Empty:
            if all(not p.is_alive() for p in procs) and result_q.empty():
                break
            continue
        got += 1
        results.extend(stats)
        functions_all.update(fns)
    for p in procs:
        p.join(timeout=10)
        if p.is_alive():
            p.terminate()
    if got < jobs:
        r = _new_stats("<runner>")
        r["status"] = "engine: %d worker(s) died without reporting" % (jobs - got)
        results.append(r)
    wall = time.time() - t0

    # ---- aggregate
    agg = {"paths": 0, "queries": 0, "solver_s": 0.0, "obligations": 0, "discharged": 0,
           "crossval": 0, "nontrivial": 0}
    labels, functions, samples, notes = {}, functions_all, [], {}
    second = {"checked": 0, "agree": 0}
    bad, violations, per_case, stopped = [], [], {}, []
    for r in results:
        for k in agg:
            agg[k] += r[k]
        for k, v in r["labels"].items():
            kk = "%s:%s" % (r["case"], k)
            labels[kk] = labels.get(kk, 0) + v
        for k, v in r.get("notes", {}).items():
            notes[k] = notes.get(k, 0) + v
        samples.extend(r["samples"])
        second["checked"] += r["second"]["checked"]
        second["agree"] += r["second"]["agree"]
        second["unknown"] = second.get("unknown", 0) + r["second"].get("unknown", 0)
        pc = per_case.setdefault(r["case"], {"paths": 0, "wall_s": 0.0, "queries": 0})
        pc["paths"] += r["paths"]
        pc["wall_s"] = round(pc["wall_s"] + r["wall_s"], 2)
        pc["queries"] += r["queries"]
        if r["status"] == STOPPED:
            stopped.append(r["case"])
        elif r["status"] != "exhausted":
            bad.append((r["case"], r["items"], r["status"]))
        violations.extend(r["violations"])
    for c in cases:
        if per_case.get(c.name, {}).get("paths", 0) == 0 and not stopped:
            bad.append((c.name, 0, "vacuous: no feasible path reached the end of the harness"))
    if stopped:
        notes["cases-cut-short-after-a-confirmed-violation"] = len(set(stopped))

    # ---- fresh-process confirmation.  A counterexample that did not reproduce inside the worker, or a
    # path whose concrete cross-validation failed there, may have been disturbed by state the code under
    # test keeps between calls (a module- or class-level cache filled on earlier paths, possibly with
    # symbolic values).  The inputs are re-run on the plain code in a new interpreter; a violation seen
    # there is genuine and is its own replay.  This can only turn "inconclusive" into "violation".
    todo, seen_t = [], set()
    for v in violations:
        if not v["reproduced"]:
            k = (v["case"], v["key"])
            if k not in seen_t and len(todo) < 16:
                seen_t.add(k)
                todo.append({"case": v["case"], "values": v["values"], "key": v["key"]})
    nsus = 0
    for r in results:
        for vals in r.get("suspects", [])[:3]:
            if nsus < 16:
                nsus += 1
                todo.append({"case": r["case"], "values": vals, "key": None})
    if todo:
        confirmed = _fresh_confirm(prop, tier, todo)
        notes["fresh-process-confirmations"] = len(todo)
        have = set(v["key"] for v in violations if v["reproduced"])
        for t, res in zip(todo, confirmed):
            for cv in res:
                if t["key"] is not None and cv["key"] == t["key"]:
                    for v in violations:
                        if v["case"] == t["case"] and v["key"] == t["key"]:
                            v["reproduced"] = True
                    have.add(cv["key"])
                elif cv["key"] not in have:
                    have.add(cv["key"])
                    violations.append({"case": t["case"], "label": cv["label"], "key": cv["key"],
                                       "detail": "%s [seen in a fresh interpreter on the inputs of a path whose "
                                                 "in-worker concrete run disagreed]" % cv["detail"],
                                       "values": t["values"], "reproduced": True})

    # ---- classify violations
    known = load_known(prop)
    new, knownhits, unrepro = [], {}, []
    for v in violations:
        if not v["reproduced"]:
            unrepro.append(v)
            continue
        hit = None
        for key, desc in known:
            if v["key"] == key:
                hit = (key, desc)
                break
        if hit:
            knownhits.setdefault(hit, []).append(v)
        else:
            new.append(v)
    exit_code = 0
    lines = []
    for (key, desc), vs in sorted(knownhits.items()):
        lines.append("KNOWN-FINDING: property=%s key=%s %s" % (prop, key, desc))
    if unrepro:
        for v in unrepro[:5]:
            lines.append("INCONCLUSIVE property=%s counterexample did not reproduce concretely: "
                         "case=%s label=%s values=%s concrete=%s"
                         % (prop, v["case"], v["label"], json.dumps(v["values"]),
                            v.get("concrete_outcome")))
        exit_code = 2
    if bad:
        for c, s, st in bad[:8]:
            lines.append("INCONCLUSIVE property=%s case=%s shard=%s: %s" % (prop, c, s, st))
        exit_code = 2
    seenkeys = set()
    rdir = os.environ.get("VERIF_REPLAY_DIR") or os.path.join(VERIF, "replays")
    os.makedirs(rdir, exist_ok=True)
    for v in new:
        if v["key"] in seenkeys:
            continue
        seenkeys.add(v["key"])
        h = hashlib.sha1(json.dumps([v["case"], v["key"], v["values"]],
                                    sort_keys=True).encode()).hexdigest()[:10]
        path = os.path.join(rdir, "%s-%s.json" % (prop, h))
        with open(path, "w") as f:
            json.dump({"property": prop, "module": modname, "tier": tier,
                       "case": v["case"], "label": v["label"], "key": v["key"],
                       "detail": v["detail"], "values": v["values"]}, f, indent=1)
        lines.append("VIOLATION property=%s replay=%s" % (prop, path))
        lines.append("  case=%s key=%s detail=%s inputs=%s"
                     % (v["case"], v["key"], v["detail"], json.dumps(v["values"])))
        exit_code = 1 if exit_code == 0 else exit_code
    if new and exit_code == 2:
        exit_code = 1
    if stopped and not new:
        lines.append("INCONCLUSIVE property=%s exploration was cut short but no new violation was confirmed" % prop)
        exit_code = 2

    # ---- evidence
    samples.sort(key=lambda s: (s["case"], json.dumps(s["inputs"], sort_keys=True)))
    ev = {
        "property_id": prop,
        "tier": tier,
        "seed": seed,
        "level": "other",
        "coverage": {
            "explanation": meta.get("explanation", ""),
            "evaluations": agg["paths"],
            "distinct_nontrivial": agg["nontrivial"],
            "rule": "one evaluation = one feasible path of the real code through the harness "
                    "(an equivalence class of inputs with the same decision vector, so paths "
                    "are pairwise distinct by construction); non-trivial = the path contains "
                    "at least one decision the solver had to make on a symbolic value",
            "samples": samples[:12],
            "obligations": agg["obligations"],
            "discharged": agg["discharged"],
            "paths_by_outcome": dict(sorted(labels.items(), key=lambda kv: -kv[1])[:60]),
            "outcome_classes": len(labels),
            "queries": agg["queries"],
            "solver_s": round(agg["solver_s"], 2),
            "cross_validated_paths": agg["crossval"],
            "second_solver": dict(second, solver="cvc5 1.4.0 (wheel) on z3's SMT-LIB2 dump"),
            "functions_encoded": sorted(functions),
            "bounds": meta.get("bounds", []),
            "stubs": meta.get("stubs", []),
            "outside_claim": meta.get("outside", []),
            "cases": per_case,
            "notes": notes,
            "exhaustive": exit_code != 2,
            "known_findings_hit": sorted(k for k, _ in knownhits),
            "inconclusive": ["%s[%s]: %s" % b for b in bad][:10],
        },
        "assumptions": meta.get("assumptions", []),
        "wall_s": round(wall, 2),
        "violations": len(seenkeys),
    }
    evdir = os.environ.get("VERIF_EVIDENCE_DIR") or os.path.join(VERIF, "evidence")
    os.makedirs(evdir, exist_ok=True)
    with open(os.path.join(evdir, "%s.json" % prop), "w") as f:
        json.dump(ev, f, indent=1, sort_keys=False)
        f.write("\n")
    for l in lines:
        print(l)
    print("%s tier=%s paths=%d obligations=%d/%d queries=%d solver=%.1fs crossval=%d "
          "second=%d/%d wall=%.1fs exit=%d"
          % (prop, tier, agg["paths"], agg["discharged"], agg["obligations"], agg["queries"],
             agg["solver_s"], agg["crossval"], second["agree"], second["checked"], wall,
             exit_code))
    return exit_code


def _fresh_confirm(prop, tier, todo):
    """Run each {case, values} concretely in a new interpreter; returns a list (per item) of the
    violations seen there as dicts."""
    import subprocess
    import tempfile
    out = []
    with tempfile.TemporaryDirectory(prefix="symx-confirm-") as d:
        for i, t in enumerate(todo):
            f = os.path.join(d, "%d.json" % i)
            with open(f, "w") as fh:
                json.dump({"tier": tier, "case": t["case"], "values": t["values"]}, fh)
            try:
                p = subprocess.run([sys.executable, "-m", "symx.cli", prop, "--confirm", f],
                                   cwd=VERIF, capture_output=True, text=True, timeout=600)
                line = [l for l in p.stdout.splitlines() if l.startswith("CONFIRM ")]
                out.append(json.loads(line[-1][8:]) if line else [])
            except Exception:  # noqa
                out.append([])
    return out


def confirm(modname, path):
    """Child side of _fresh_confirm: plain concrete run, prints the violations as JSON."""
    rec = json.load(open(path))
    mod = importlib.import_module(modname)
    cs = [c for c in _cases(mod, rec["tier"]) if c.name == rec["case"]]
    res = []
    if cs:
        try:
            label, obs, viol = run_concrete(cs[0], rec["values"])
            res = [{"key": v.key, "label": v.label, "detail": v.detail} for v in viol]
        except BaseException:  # noqa
            res = []
    print("CONFIRM " + json.dumps(res))
    return 0


def replay(path):
    """Replay a recorded counterexample on the plain code."""
    rec = json.load(open(path))
    mod = importlib.import_module(rec["module"])
    for tier in (rec.get("tier", "quick"), "thorough", "quick"):
        cs = [c for c in mod.cases(tier) if c.name == rec["case"]]
        if cs:
            break
    if not cs:
        print("replay: case %s not found" % rec["case"])
        return 2
    case = cs[0]
    label, obs, viol = run_concrete(case, rec["values"])
    hit = [v for v in viol if v.key == rec["key"]]
    print("replay %s case=%s inputs=%s" % (rec["property"], rec["case"], json.dumps(rec["values"])))
    print("  outcome: %r" % (label,))
    for n, v in obs[:20]:
        print("  observed %s = %r" % (n, v))
    if hit:
        print("VIOLATION property=%s replay=%s" % (rec["property"], path))
        print("  %s: %s" % (hit[0].key, hit[0].detail))
        return 1
    print("  not reproduced on the current tree")
    return 0
