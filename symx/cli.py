"""./check <ID> [--tier quick|thorough] [--replay FILE] [--jobs N]"""
import argparse
import importlib
import os
import sys

sys.dont_write_bytecode = True
VERIF = os.path.dirname(os.path.dirname(os.path.abspath(__file__)))
sys.path.insert(0, VERIF)
REPO = os.environ.get("VERIF_REPO", "/repo")
if REPO != "/repo" or True:
    # always import dali from the working tree under test
    sys.path.insert(0, REPO)

from symx import runner  # noqa: E402


def main():
    ap = argparse.ArgumentParser()
    ap.add_argument("prop")
    ap.add_argument("--tier", default=os.environ.get("VERIF_TIER", "quick"),
                    choices=["quick", "thorough"])
    ap.add_argument("--replay")
    ap.add_argument("--jobs", type=int, default=0)
    ap.add_argument("--case", action="append", help="run only cases whose name contains this (repeatable)")
    ap.add_argument("--confirm", help=argparse.SUPPRESS)
    a = ap.parse_args()
    if a.replay:
        return runner.replay(a.replay)
    import harness
    modname = harness.MODULES.get(a.prop)
    if modname is None:
        print("no check registered for %s" % a.prop)
        return 2
    mod = importlib.import_module(modname)
    if a.confirm:
        return runner.confirm(modname, a.confirm)
    if a.case:
        orig = mod.cases
        mod.cases = lambda tier: [c for c in orig(tier) if any(x in c.name for x in a.case)]
        # a partial run must not overwrite the property's evidence file
        os.environ.setdefault("VERIF_EVIDENCE_DIR", os.path.join(VERIF, ".scratch-probes", "evidence"))
    seed = int(os.environ.get("VERIF_SEED", "0") or 0)
    import dali
    if not os.path.abspath(dali.__file__).startswith(os.path.abspath(REPO) + os.sep):
        print("INCONCLUSIVE: dali imported from %s, not from %s" % (dali.__file__, REPO))
        return 2
    return runner.run_property(a.prop, modname, a.tier, seed, mod.META, jobs=a.jobs or None)


if __name__ == "__main__":
    sys.exit(main())
