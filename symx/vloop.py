"""Virtual-time asyncio event loop: the real SelectorEventLoop with only the
selector and the clock replaced.  Nothing ever blocks: when no callback is
ready the clock jumps to the next timer; when nothing is scheduled at all the
loop reports a deadlock instead of hanging."""
import asyncio
import selectors


class Deadlock(Exception):
    """Nothing is ready, no timer is pending, and the main coroutine has not finished."""


class _VSelector(selectors.BaseSelector):
    def __init__(self):
        self.loop = None
        self._map = {}

    def register(self, fileobj, events, data=None):
        key = selectors.SelectorKey(fileobj, fileobj if isinstance(fileobj, int) else id(fileobj),
                                    events, data)
        self._map[fileobj] = key
        return key

    def unregister(self, fileobj):
        return self._map.pop(fileobj)

    def modify(self, fileobj, events, data=None):
        self._map.pop(fileobj, None)
        return self.register(fileobj, events, data)

    def select(self, timeout=None):
        if timeout is None:
            raise Deadlock("event loop has nothing to run and no timer pending")
        if timeout > 0:
            self.loop._vtime += timeout
        return []

    def get_map(self):
        return self._map

    def close(self):
        self._map.clear()


class VLoop(asyncio.SelectorEventLoop):
    def __init__(self):
        self._vtime = 0.0
        sel = _VSelector()
        super().__init__(sel)
        sel.loop = self
        self.fd_readers = {}

    def time(self):
        return self._vtime

    # file descriptors of the fake `os` are not real: keep the callbacks ourselves
    def add_reader(self, fd, callback, *args):
        self.fd_readers[fd] = (callback, args)

    def remove_reader(self, fd):
        return self.fd_readers.pop(fd, None) is not None

    def fire_reader(self, fd):
        cb = self.fd_readers.get(fd)
        if cb is not None:
            cb[0](*cb[1])
            return True
        return False


class BusyLoop(Exception):
    """The code under test kept the CPU for longer than the watchdog allows without ever returning to the
    event loop: a loop that never awaits (virtual time cannot pass, nobody else can run)."""


def _watchdog_limits():
    # concrete runs are fast: a few seconds of real time without returning means a spin; symbolic runs spend
    # their time in the solver, so the limit there is only a last resort against a stuck worker
    from . import core
    return (90.0 if core.Ctx.cur is not None else 15.0)


def run(coro_fn, *args):
    """Run `await coro_fn(loop, *args)` to completion on a fresh virtual loop.
    Returns its result; raises Deadlock if it can never finish, BusyLoop if the code under test spins
    without awaiting (SIGALRM watchdog on real time; main thread only)."""
    import signal
    import threading
    loop = VLoop()
    errors = []
    loop.set_exception_handler(lambda l, c: errors.append(c))
    asyncio.set_event_loop(loop)
    limit = _watchdog_limits()
    armed = threading.current_thread() is threading.main_thread()
    symbolic = limit > 50

    def on_alarm(signum, frame):
        # keep firing: a broad `except Exception` in the spinning code must not swallow the only shot
        signal.setitimer(signal.ITIMER_REAL, 1.0)
        if symbolic:
            from .core import EngineUnsupported
            raise EngineUnsupported("watchdog: %.0f s of real time inside one event-loop run" % limit)
        raise BusyLoop("no return to the event loop for %.0f s of real time" % limit)
    if armed:
        old_handler = signal.signal(signal.SIGALRM, on_alarm)
        signal.setitimer(signal.ITIMER_REAL, limit)
    try:
        res = loop.run_until_complete(coro_fn(loop, *args))
        return res, errors
    finally:
        if armed:
            signal.setitimer(signal.ITIMER_REAL, 0)
            signal.signal(signal.SIGALRM, old_handler)
        try:
            pending = [t for t in asyncio.all_tasks(loop) if not t.done()]
            for t in pending:
                t.cancel()
            if pending:
                try:
                    loop.run_until_complete(asyncio.gather(*pending, return_exceptions=True))
                except Deadlock:
                    pass
        finally:
            asyncio.set_event_loop(None)
            loop.close()


async def settle(n=8):
    """Let every ready callback run (n rounds through the ready queue)."""
    for _ in range(n):
        await asyncio.sleep(0)
