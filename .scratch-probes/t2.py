import sys, time
sys.path.insert(0, '/tmp/probe')
import symx
from symx import *
import dali.frame
install([dali.frame])
import z3
viol = []
def h(ctx):
    bits = SymInt.fresh('bits', 1, 64)
    data = SymInt.fresh('data', 0, (1<<64)-1)
    hi = SymInt.fresh('hi', -2, 66)
    lo = SymInt.fresh('lo', -2, 66)
    v = SymInt.fresh('v', -2, (1<<64)+1)
    try:
        f = dali.frame.Frame(bits, data)
    except ValueError:
        return 'ctor-reject'
    before = f._data
    try:
        f[hi:lo] = v
    except (IndexError, ValueError) as e:
        # must be unchanged
        if not (f._data == before):
            viol.append(('changed-on-reject', ctx.get_model()))
        return 'reject:' + type(e).__name__
    # reference: bits outside [lo..hi] unchanged, inside == v
    H = z3.If(hi.t > lo.t, hi.t, lo.t); L = z3.If(hi.t > lo.t, lo.t, hi.t)
    width = H - L + 1
    mask = ((z3.BitVecVal(1, W) << width) - 1) << L
    after = f._data
    at = after.t if isinstance(after, SymInt) else z3.BitVecVal(after, W)
    bt = before.t if isinstance(before, SymInt) else z3.BitVecVal(before, W)
    good = z3.And((at & ~mask) == (bt & ~mask), ((at & mask) >> L) == v.t, at >= 0, z3.ULT(at, z3.BitVecVal(1, W) << bits.t))
    if not ctx.branch(good):
        viol.append(('bad-write', ctx.get_model()))
    return 'ok'
t = time.time()
ctx, res = explore(h)
from collections import Counter
print("paths", ctx.paths, "queries", ctx.queries, "solver_s", round(ctx.solver_time, 2), "wall", round(time.time() - t, 2))
print(Counter(res)); print(viol[:3])
