import sys, time
sys.path.insert(0, '/tmp/probe')
import symx
from symx import *
import z3, builtins
from decimal import Decimal

# --- extra shims for the probe
class SymBytes2(SymBytes):
    def __eq__(self, o):
        if isinstance(o, (bytes, SymBytes)):
            oi = list(o)
            if len(oi) != len(self.items): return False
            for a, b in zip(self.items, oi):
                if not (a == b): return False
            return True
        return NotImplemented
    def __getitem__(self, i):
        r = self.items[i]
        return SymBytes2(r) if isinstance(i, slice) else r
    __hash__ = None
def bytes_shim(x=b'', *a):
    if isinstance(x, (list, tuple, SymBytes)) and any(isinstance(i, SymInt) for i in x):
        return SymBytes2(x)
    return bytes(x, *a)
def pow_shim(b, e, *a):
    if isinstance(e, SymInt): e = e.concretize(512)
    return pow(b, e, *a)
_ofb = IntShim.from_bytes
def from_bytes(data, byteorder='big', *, signed=False):
    items = list(data)
    if signed and any(isinstance(i, SymInt) for i in items):
        v = _ofb(items, byteorder, signed=False)
        n = 8 * len(items)
        t = z3.If(z3.UGE(v.t, z3.BitVecVal(1 << (n - 1), W)), v.t - z3.BitVecVal(1 << n, W), v.t)
        return SymInt.mk(t, -(1 << (n - 1)), (1 << (n - 1)) - 1)
    return _ofb(items, byteorder, signed=signed)
IntShim.from_bytes = staticmethod(from_bytes)
def _rmul(self, o):
    if isinstance(o, Decimal): return ('scaled', self, o)
    if isinstance(o, int): return SymInt.mk(self.t * o, min(self.lo*o, self.hi*o), max(self.lo*o, self.hi*o))
    return NotImplemented
SymInt.__rmul__ = _rmul; SymInt.__mul__ = _rmul

import dali.memory.location as loc, dali.memory.oem as oem, dali.memory.energy as energy, dali.memory.diagnostics as diag
import dali.gear.general as gg, dali.frame, dali.command
mods = [m for n, m in sys.modules.items() if n.startswith('dali.') and 'tests' not in n]
install(mods)
for m in mods:
    m.__dict__['bytes'] = bytes_shim; m.__dict__['pow'] = pow_shim

def run_read(ctx, cls, image, L):
    """tiny §9.10 model: dtr0/dtr1, answers image[dtr0] if dtr0<=L"""
    dtr0 = SymInt.fresh('dtr0_init', 0, 255); dtr1 = SymInt.fresh('dtr1_init', 0, 255)
    g = cls.read(gg.GearShort(1) if False else 1)
    resp = None
    try:
        while True:
            cmd = g.send(resp); resp = None
            if isinstance(cmd, gg.DTR0): dtr0 = cmd.param
            elif isinstance(cmd, gg.DTR1): dtr1 = cmd.param
            elif isinstance(cmd, gg.ReadMemoryLocation):
                a = dtr0 if not isinstance(dtr0, SymInt) else dtr0.concretize()
                if (dtr1 == cls.bank.address) and (a <= L):
                    resp = cmd.response(dali.frame.BackwardFrame(image[a]))
                else:
                    resp = cmd.response(None)
                dtr0 = a + 1 if a < 255 else 255
    except StopIteration as e:
        return e.value

viol = []
def harness(cls):
    def h(ctx):
        image = [SymInt.fresh('m%d' % i, 0, 255) for i in range(0, 40)]
        L = SymInt.fresh('L', 0, 254)
        try:
            v = run_read(ctx, cls, image, L)
        except loc.MemoryLocationNotImplemented:
            last = max(l.address for l in cls.locations)
            if not ctx.branch(L.t < last) :
                viol.append(('spurious NotImplemented', ctx.get_model()))
            return 'notimpl'
        return type(v).__name__ if not isinstance(v, loc.FlagValue) else str(v)
    return h
from collections import Counter
for cls in (oem.MainsVoltageMinimum, energy.ActiveEnergy, diag.ControlGearExternalSupplyVoltage, oem.YearOfManufacture):
    t = time.time()
    ctx, res = explore(harness(cls))
    print(cls.__name__, "paths", ctx.paths, "queries", ctx.queries, "solver_s", round(ctx.solver_time, 2), "wall", round(time.time() - t, 2), dict(Counter(res)), viol[:2])
