import sys, time
sys.path.insert(0, '/tmp/probe')
import symx
from symx import *
import dali.frame, dali.command, dali.address
import dali.gear, dali.device
import dali.gear.general as gg
import dali.device.general as dg
import dali.device.pushbutton as pb
mods = [m for n, m in sys.modules.items() if n.startswith('dali.') and 'tests' not in n]
install(mods)
dg._StandardDeviceCommand._opcodes = SymDict(dg._StandardDeviceCommand._opcodes)
dg._StandardInstanceCommand._opcodes = SymDict(dg._StandardInstanceCommand._opcodes)
dg._Event._instance_types = SymDict(dg._Event._instance_types)
pb._PushbuttonEvent._event_classes = SymDict(pb._PushbuttonEvent._event_classes)
viol = []; exc = []
def h24(ctx):
    x = SymInt.fresh('x', 0, 0xFFFFFF)
    f = dali.frame.ForwardFrame(24, x)
    try:
        c = dali.command.from_frame(f)
    except EngineUnsupported: raise
    except Exception as e:
        exc.append((type(e).__name__, str(e)[:60], ctx.get_model()[x.t])); return 'EXC'
    ok = (c.frame.as_integer == x) and len(c.frame) == 24
    s = str(c)
    if not ok:
        viol.append((ctx.get_model()[x.t], type(c)))
    return type(c).__name__
t = time.time()
ctx, res = explore(h24)
print("paths", ctx.paths, "queries", ctx.queries, "solver_s", round(ctx.solver_time, 2), "wall", round(time.time() - t, 2))
from collections import Counter
print(len(set(res)), Counter(res).most_common(6))
print("violations", viol[:5]); print("exc", exc[:5])
