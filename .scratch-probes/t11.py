import sys, time, re
sys.path.insert(0, '/tmp/probe')
import symx
from symx import *
import z3
import dali.frame, dali.command, dali.address as A, dali.gear.general as gg, dali.device.general as dg, dali.device.light as light
mods = [m for n, m in sys.modules.items() if n.startswith('dali.') and 'tests' not in n]
install(mods)
for cls, attr in ((gg._StandardCommand,'_opcodes'),(gg._SpecialCommand,'_opcodes'),(dg._StandardDeviceCommand,'_opcodes'),(dg._StandardInstanceCommand,'_opcodes'),(dg._Event,'_instance_types')):
    setattr(cls, attr, SymDict(getattr(cls, attr)))
TOK = {}
def _fmt(self, spec=''):
    k = len(TOK); TOK[k] = self; return "⟦%d:%s⟧" % (k, spec)
SymInt.__format__ = _fmt; SymInt.__str__ = lambda self: _fmt(self)
def bvv(v): return v.t if isinstance(v, SymInt) else z3.BitVecVal(v, W)
def text_equal(ctx, s1, s2):
    pat = re.compile("⟦(\\d+):([^⟧]*)⟧")
    l1, l2 = pat.split(s1), pat.split(s2)
    if len(l1) != len(l2): return False
    for i in range(0, len(l1), 3):
        if l1[i] != l2[i]: return False
    for i in range(1, len(l1), 3):
        if l1[i + 1] != l2[i + 1]: return False
        a, b = TOK[int(l1[i])], TOK[int(l2[i])]
        if ctx.branch(bvv(a) != bvv(b)): return False
    return True
viol = []
def mk(name, ctor, legal):
    def h(ctx):
        TOK.clear()
        a = SymInt.fresh('a', -2, 70); p = SymInt.fresh('p', -2, 300)
        try:
            c = ctor(a, p)
        except EngineUnsupported: raise
        except Exception as e:
            if ctx.branch(legal(a, p)): viol.append((name, 'legal rejected', type(e).__name__, ctx.get_model()))
            return 'reject:' + type(e).__name__
        if ctx.branch(z3.Not(legal(a, p))): viol.append((name, 'illegal accepted', ctx.get_model())); return 'BAD'
        d = dali.command.from_frame(c.frame, devicetype=c.devicetype)
        if type(d) is not type(c): viol.append((name, 'class', type(d))); return 'BADCLASS'
        if not text_equal(ctx, str(c), str(d)): viol.append((name, 'text', str(c), str(d), ctx.get_model()))
        return 'ok:' + str(c)[:20]
    return h
cases = [
 ('SetScene', lambda a, p: gg.SetScene(A.GearShort(a), p), lambda a, p: z3.And(a.t >= 0, a.t <= 63, p.t >= 0, p.t <= 15)),
 ('DAPC-group', lambda a, p: gg.DAPC(A.GearGroup(a), p), lambda a, p: z3.And(a.t >= 0, a.t <= 15, p.t >= 0, p.t <= 255)),
 ('DTR1DTR0', lambda a, p: dg.DTR1DTR0(a, p), lambda a, p: z3.And(a.t >= 0, a.t <= 255, p.t >= 0, p.t <= 255)),
 ('ProgramShort', lambda a, p: gg.ProgramShortAddress(a), lambda a, p: z3.And(a.t >= 0, a.t <= 63)),
 ('LightEvent-devgroup', lambda a, p: light.LightEvent(device_group=a, data=p), lambda a, p: z3.And(a.t >= 0, a.t <= 31, p.t >= 0, p.t <= 1023)),
 ('QueryInstanceType', lambda a, p: dg.QueryInstanceType(A.DeviceShort(a), A.InstanceNumber(p)), lambda a, p: z3.And(a.t >= 0, a.t <= 63, p.t >= 0, p.t <= 31)),
]
from collections import Counter
for name, ctor, legal in cases:
    t = time.time(); ctx, res = explore(mk(name, ctor, legal))
    print(name, "paths", ctx.paths, "queries", ctx.queries, "wall", round(time.time() - t, 2), dict(Counter(r.split(':')[0] + ':' + r.split(':')[1][:12] for r in res)))
print("viol", viol[:4])
