import sys, time, types
sys.path.insert(0, '/tmp/probe')
import symx
from symx import *
import z3
import dali.driver.serial as S
import dali.frame, dali.command, dali.gear, dali.device
import dali.gear.general as gg, dali.device.general as dg, dali.device.pushbutton as pb
mods = [m for n, m in sys.modules.items() if n.startswith('dali.') and 'tests' not in n]
install(mods)
for cls, attr in ((gg._StandardCommand,'_opcodes'),(gg._SpecialCommand,'_opcodes'),(dg._StandardDeviceCommand,'_opcodes'),(dg._StandardInstanceCommand,'_opcodes'),(dg._Event,'_instance_types'),(pb._PushbuttonEvent,'_event_classes')):
    setattr(cls, attr, SymDict(getattr(cls, attr)))
class EnumProxy:
    def __init__(self, e): self._e = e
    def __getattr__(self, n): return getattr(self._e, n)
    def __call__(self, v):
        if not isinstance(v, SymInt): return self._e(v)
        members = list(self._e)
        conds = [v.t == m.value for m in members]
        conds.append(z3.Not(z3.Or(*conds)))
        k = Ctx.cur.choose(conds)
        if k == len(members): raise ValueError("not a valid member")
        return members[k]
S.DriverLubaRs232.LubaCmd = EnumProxy(S.DriverLubaRs232.LubaCmd)
def bytes_shim(x=b'', *a):
    if isinstance(x, (list, tuple)) and any(isinstance(i, SymInt) for i in x): return SymBytes(x)
    return bytes(x, *a)
S.__dict__['bytes'] = bytes_shim
exc = []
N = int(sys.argv[1])
def h(ctx):
    p = S.DriverLubaRs232.LubaProtocol()
    data = [SymInt.fresh('b%d' % i, 0, 255) for i in range(N)]
    try:
        p.data_received(data)
    except EngineUnsupported: raise
    except Exception as e:
        m = ctx.get_model()
        exc.append((type(e).__name__, [m.eval(d.t, model_completion=True).as_long() for d in data]))
        return 'EXC:' + type(e).__name__
    return (p._rx_state.name, p._queue_rx_raw_dali.qsize(), p._queue_tx_conf.qsize(), p._queue_rx_dali.qsize())
t = time.time()
ctx, res = explore(h)
from collections import Counter
print("N", N, "paths", ctx.paths, "queries", ctx.queries, "solver_s", round(ctx.solver_time, 2), "wall", round(time.time() - t, 2))
print(Counter(res).most_common(12)); print(exc[:4])
