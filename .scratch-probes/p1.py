from dali import frame, command, address
import dali.gear.general as gg
import dali.gear.led, dali.gear.emergency, dali.gear.colour, dali.gear.incandescent, dali.gear.converter
import dali.device.general, dali.device.pushbutton, dali.device.occupancy, dali.device.light

def frame_slice_rt(bits: int, data: int, hi: int, lo: int, v: int) -> bool:
    """
    pre: 1 <= bits <= 64
    pre: 0 <= data < 2**bits
    pre: 0 <= lo <= hi < bits
    pre: 0 <= v < 2**(hi-lo+1)
    post: _
    """
    f = frame.Frame(bits, data)
    f[hi:lo] = v
    return f[hi:lo] == v and len(f) == bits and 0 <= f.as_integer < 2**bits

def decode16(x: int, dt: int) -> bool:
    """
    pre: 0 <= x < 65536
    pre: 0 <= dt < 256
    post: _
    """
    f = frame.ForwardFrame(16, x)
    c = command.from_frame(f, devicetype=dt)
    return c.frame.as_integer == x and len(c.frame) == 16

def decode16_bug(x: int, dt: int) -> bool:
    """
    pre: 0 <= x < 65536
    pre: 0 <= dt < 256
    post: _
    """
    f = frame.ForwardFrame(16, x)
    c = command.from_frame(f, devicetype=dt)
    return not isinstance(c, gg.QueryExtendedVersionNumber) or dt != 6 or x != 0x03ff
