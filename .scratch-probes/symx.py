"""Prototype: eager-forking symbolic executor over real Python code (probe only)."""
import builtins, sys, time
import z3

W = 64


class EngineUnsupported(BaseException):
    pass


class PathEnd(BaseException):
    pass


class Ctx:
    cur = None

    def __init__(self):
        self.solver = z3.Solver()
        self.prefix = []
        self.trace = []
        self.queries = 0
        self.solver_time = 0.0
        self.model = None
        self.paths = 0

    def _check(self, *extra):
        self.queries += 1
        t = time.time()
        r = self.solver.check(*extra)
        self.solver_time += time.time() - t
        return r

    def start_path(self, prefix):
        self.prefix = prefix
        self.trace = []
        self.solver.push()
        self.model = None

    def end_path(self):
        self.solver.pop()
        self.paths += 1

    def assume(self, cond):
        self.solver.add(cond)
        self.model = None

    def get_model(self):
        if self.model is None:
            r = self._check()
            if r != z3.sat:
                raise PathEnd("infeasible")
            self.model = self.solver.model()
        return self.model

    def choose(self, conds):
        """Multiway fork: conds are mutually exclusive & exhaustive z3 bools. Returns index."""
        idx = len(self.trace)
        if idx < len(self.prefix):
            k, n = self.prefix[idx]
            self.trace.append((k, n))
            self.solver.add(conds[k])
            self.model = None
            return k
        feas = []
        for i, c in enumerate(conds):
            c = z3.simplify(c)
            if z3.is_false(c):
                continue
            if z3.is_true(c):
                feas.append(i)
                continue
            if self._check(c) == z3.sat:
                feas.append(i)
        if not feas:
            raise PathEnd("infeasible")
        k = feas[0]
        # record remaining alternatives
        self.trace.append((k, tuple(feas[1:])))
        self.solver.add(conds[k])
        self.model = None
        return k

    def branch(self, cond):
        cond = z3.simplify(cond)
        if z3.is_true(cond):
            return True
        if z3.is_false(cond):
            return False
        k = self.choose([cond, z3.Not(cond)])
        return k == 0


def explore(fn, max_paths=10**7):
    ctx = Ctx()
    Ctx.cur = ctx
    stack = [[]]
    results = []
    while stack:
        prefix = stack.pop()
        ctx.start_path(prefix)
        try:
            r = fn(ctx)
            results.append(r)
        except PathEnd:
            pass
        finally:
            trace = ctx.trace
            ctx.end_path()
        # schedule alternatives for decisions beyond the prefix
        for i in range(len(prefix), len(trace)):
            k, alts = trace[i]
            for a in alts:
                newp = [(t[0], ()) for t in trace[:i]] + [(a, ())]
                stack.append(newp)
        if ctx.paths >= max_paths:
            break
    return ctx, results


def _bv(v):
    if isinstance(v, SymInt):
        return v.t
    if isinstance(v, bool):
        v = int(v)
    if isinstance(v, int):
        if not (-(1 << (W - 1)) <= v < (1 << (W - 1))):
            raise EngineUnsupported("constant too wide %d" % v)
        return z3.BitVecVal(v, W)
    return None


def _bits(n):
    return n.bit_length() + 1


class SymInt:
    __slots__ = ("t", "lo", "hi")

    def __init__(self, t, lo, hi):
        self.t = t
        self.lo = lo
        self.hi = hi
        if lo < -(1 << (W - 2)) or hi >= (1 << (W - 2)):
            raise EngineUnsupported("interval exceeds width: %d..%d" % (lo, hi))

    @staticmethod
    def fresh(name, lo, hi):
        t = z3.BitVec(name, W)
        Ctx.cur.assume(z3.And(t >= lo, t <= hi))
        return SymInt(t, lo, hi)

    @staticmethod
    def mk(t, lo, hi):
        t = z3.simplify(t)
        if z3.is_bv_value(t):
            return t.as_signed_long()
        return SymInt(t, lo, hi)

    def _rng(self, o):
        if isinstance(o, SymInt):
            return o.lo, o.hi
        o = int(o)
        return o, o

    # arithmetic
    def __add__(self, o):
        b = _bv(o)
        if b is None:
            return NotImplemented
        l, h = self._rng(o)
        return SymInt.mk(self.t + b, self.lo + l, self.hi + h)
    __radd__ = __add__

    def __sub__(self, o):
        b = _bv(o)
        if b is None:
            return NotImplemented
        l, h = self._rng(o)
        return SymInt.mk(self.t - b, self.lo - h, self.hi - l)

    def __rsub__(self, o):
        b = _bv(o)
        if b is None:
            return NotImplemented
        l, h = self._rng(o)
        return SymInt.mk(b - self.t, l - self.hi, h - self.lo)

    def _nonneg(self, o):
        l, h = self._rng(o)
        return self.lo >= 0 and l >= 0

    def __and__(self, o):
        b = _bv(o)
        if b is None:
            return NotImplemented
        l, h = self._rng(o)
        if self.lo >= 0 and l >= 0:
            lo, hi = 0, min(self.hi, h)
        elif l >= 0:
            lo, hi = 0, h
        elif self.lo >= 0:
            lo, hi = 0, self.hi
        else:
            k = max(_bits(self.lo), _bits(self.hi), _bits(l), _bits(h))
            lo, hi = -(1 << k), (1 << k)
        return SymInt.mk(self.t & b, lo, hi)
    __rand__ = __and__

    def _orx(self, o, op):
        b = _bv(o)
        if b is None:
            return NotImplemented
        l, h = self._rng(o)
        k = max(_bits(self.lo), _bits(self.hi), _bits(l), _bits(h))
        if self.lo >= 0 and l >= 0:
            lo, hi = 0, (1 << k) - 1
        else:
            lo, hi = -(1 << k), (1 << k)
        return SymInt.mk(op(self.t, b), lo, hi)

    def __or__(self, o):
        return self._orx(o, lambda a, b: a | b)
    __ror__ = __or__

    def __xor__(self, o):
        return self._orx(o, lambda a, b: a ^ b)
    __rxor__ = __xor__

    def __lshift__(self, o):
        b = _bv(o)
        if b is None:
            return NotImplemented
        l, h = self._rng(o)
        if l < 0:
            if Ctx.cur.branch(b < 0):
                raise ValueError("negative shift count")
            l = 0
        if h > W:
            raise EngineUnsupported("shift too wide")
        return SymInt.mk(self.t << b, min(self.lo << l, self.lo << h), max(self.hi << h, self.hi << l))

    def __rlshift__(self, o):
        a = int(o)
        l, h = self.lo, self.hi
        if l < 0:
            if Ctx.cur.branch(self.t < 0):
                raise ValueError("negative shift count")
            l = 0
        if h > W:
            raise EngineUnsupported("shift too wide")
        return SymInt.mk(z3.BitVecVal(a, W) << self.t, min(a << l, a << h), max(a << l, a << h))

    def __rshift__(self, o):
        b = _bv(o)
        if b is None:
            return NotImplemented
        l, h = self._rng(o)
        if l < 0:
            if Ctx.cur.branch(b < 0):
                raise ValueError("negative shift count")
            l = 0
        return SymInt.mk(self.t >> b, min(self.lo >> l, self.lo >> h), max(self.hi >> l, self.hi >> h))

    def __rrshift__(self, o):
        a = int(o)
        l, h = self.lo, self.hi
        if l < 0:
            if Ctx.cur.branch(self.t < 0):
                raise ValueError("negative shift count")
            l = 0
        return SymInt.mk(z3.BitVecVal(a, W) >> self.t, min(a >> l, a >> h), max(a >> l, a >> h))

    def __floordiv__(self, o):
        b = _bv(o)
        if b is None:
            return NotImplemented
        l, h = self._rng(o)
        if self.lo < 0 or l <= 0:
            raise EngineUnsupported("floordiv sign")
        return SymInt.mk(z3.UDiv(self.t, b), self.lo // h, self.hi // l)

    # comparisons (eager)
    def _cmp(self, o, op):
        b = _bv(o)
        if b is None:
            return NotImplemented
        return Ctx.cur.branch(op(self.t, b))

    def __lt__(self, o):
        return self._cmp(o, lambda a, b: a < b)

    def __le__(self, o):
        return self._cmp(o, lambda a, b: a <= b)

    def __gt__(self, o):
        return self._cmp(o, lambda a, b: a > b)

    def __ge__(self, o):
        return self._cmp(o, lambda a, b: a >= b)

    def __eq__(self, o):
        b = _bv(o)
        if b is None:
            return False
        return Ctx.cur.branch(self.t == b)

    def __ne__(self, o):
        b = _bv(o)
        if b is None:
            return True
        return Ctx.cur.branch(self.t != b)

    def __bool__(self):
        return Ctx.cur.branch(self.t != 0)

    def concretize(self, limit=256):
        ctx = Ctx.cur
        # enumerate feasible values through the solver (bounded)
        if self.hi - self.lo + 1 <= limit:
            cands = list(range(self.lo, self.hi + 1))
        else:
            raise EngineUnsupported("concretize domain too large")
        k = ctx.choose([self.t == v for v in cands])
        return cands[k]

    def __index__(self):
        return self.concretize()

    def __hash__(self):
        return hash(self.concretize())

    def __format__(self, spec):
        return "<sym>"

    def __repr__(self):
        return "Sym(%s)" % self.t

    def bit_length(self):
        me = self
        if self.lo < 0:
            if Ctx.cur.branch(self.t < 0):
                me = SymInt(-self.t, 0, max(-self.lo, 0))
            else:
                me = SymInt(self.t, 0, max(self.hi, 0))
        n = me.hi.bit_length()
        t = z3.BitVecVal(0, W)
        for k in range(1, n + 1):
            t = z3.If(z3.UGE(me.t, z3.BitVecVal(1 << (k - 1), W)), z3.BitVecVal(k, W), t)
        return SymInt.mk(t, 0, n)

    def to_bytes(self, length, byteorder="big", *, signed=False):
        if signed:
            raise EngineUnsupported("signed to_bytes")
        if Ctx.cur.branch(self.t < 0):
            raise OverflowError("can't convert negative int to unsigned")
        if Ctx.cur.branch(z3.UGE(self.t, z3.BitVecVal(1 << (8 * length), W))) if 8 * length < W - 1 else False:
            raise OverflowError("int too big to convert")
        bs = [SymInt.mk((self.t >> (8 * i)) & 0xFF, 0, 255) for i in range(length)]
        if byteorder == "big":
            bs.reverse()
        return SymBytes(bs)


class SymBytes:
    def __init__(self, items):
        self.items = list(items)

    def __len__(self):
        return len(self.items)

    def __iter__(self):
        return iter(self.items)

    def __getitem__(self, i):
        r = self.items[i]
        if isinstance(i, slice):
            return SymBytes(r)
        return r


class _IntMeta(type):
    def __instancecheck__(cls, obj):
        return isinstance(obj, (int, SymInt))


class IntShim(metaclass=_IntMeta):
    def __new__(cls, x=0, *a):
        if isinstance(x, SymInt):
            return x
        return int(x, *a)

    @staticmethod
    def from_bytes(data, byteorder="big", *, signed=False):
        items = list(data)
        if not any(isinstance(i, SymInt) for i in items):
            return int.from_bytes(bytes(items), byteorder, signed=signed)
        if signed:
            raise EngineUnsupported("signed from_bytes")
        if byteorder != "big":
            items.reverse()
        acc = 0
        for it in items:
            if isinstance(it, SymInt):
                if it.lo < 0 or it.hi > 255:
                    if Ctx.cur.branch(z3.Or(it.t < 0, it.t > 255)):
                        raise ValueError("bytes must be in range(0, 256)")
                    it = SymInt(it.t, 0, 255)
            acc = (acc << 8) | it
        return acc


_real_isinstance = builtins.isinstance


def sym_isinstance(obj, cls):
    if cls is int:
        return _real_isinstance(obj, (int, SymInt))
    if cls is IntShim:
        return _real_isinstance(obj, (int, SymInt))
    if _real_isinstance(cls, tuple):
        return any(sym_isinstance(obj, c) for c in cls)
    return _real_isinstance(obj, cls)


class SymDict(dict):
    """dict whose .get understands symbolic keys: forks per distinct value."""

    def get(self, key, default=None):
        parts = key if _real_isinstance(key, tuple) else (key,)
        if not any(_real_isinstance(p, SymInt) for p in parts):
            return dict.get(self, key, default)
        groups = {}
        order = []
        for k, v in self.items():
            kp = k if _real_isinstance(k, tuple) else (k,)
            if len(kp) != len(parts):
                continue
            conds = []
            ok = True
            for a, b in zip(parts, kp):
                if _real_isinstance(a, SymInt):
                    conds.append(a.t == b)
                elif a != b:
                    ok = False
                    break
            if not ok:
                continue
            c = z3.And(*conds) if len(conds) > 1 else conds[0]
            if id(v) not in groups:
                groups[id(v)] = (v, [])
                order.append(id(v))
            groups[id(v)][1].append(c)
        conds = [z3.Or(*groups[i][1]) for i in order]
        conds.append(z3.Not(z3.Or(*conds)) if conds else z3.BoolVal(True))
        k = Ctx.cur.choose(conds)
        if k == len(order):
            return default
        return groups[order[k]][0]


def install(mods):
    for m in mods:
        m.__dict__["isinstance"] = sym_isinstance
        m.__dict__["int"] = IntShim
