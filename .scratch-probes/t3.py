import sys, time
sys.path.insert(0, '/tmp/probe')
import symx
from symx import *
import z3
import dali.sequences as seqs
import dali.gear.general as gg
import dali.command, dali.frame
mods = [m for n, m in sys.modules.items() if n.startswith('dali.') and 'tests' not in n]
install(mods)
real_find_next = seqs._find_next
viol = []

def bvv(v): return v.t if isinstance(v, SymInt) else z3.BitVecVal(v, W)

def harness(ctx):
    low = SymInt.fresh('low', 0, 0xFFFFFF)
    high = SymInt.fresh('high', 0, 0xFFFFFF)
    ctx.assume(low.t <= high.t)
    has_m = ctx.branch(z3.Bool('has_m'))
    m = SymInt.fresh('m', 0, 0xFFFFFF)
    if has_m:
        ctx.assume(m.t >= low.t)       # precondition: no active unit below low
    dup = ctx.branch(z3.Bool('dup'))
    calls = []
    def stub(l2, h2):
        # obligations: strictly smaller, well-formed, precondition
        sz_ok = z3.And(bvv(l2) <= bvv(h2), bvv(l2) >= low.t, bvv(h2) <= high.t, (bvv(h2) - bvv(l2)) < (high.t - low.t))
        if not ctx.branch(sz_ok):
            viol.append(('stub-size', ctx.get_model()))
        if has_m and not ctx.branch(m.t >= bvv(l2)):
            viol.append(('stub-pre', ctx.get_model()))
        calls.append((l2, h2))
        if has_m and ctx.branch(m.t <= bvv(h2)):
            return 'clash' if dup else m
        return None
        yield
    seqs._find_next = stub
    try:
        g = real_find_next(low, high)
        search = [0, 0, 0]
        resp = None
        n = 0
        try:
            while True:
                cmd = g.send(resp)
                n += 1
                resp = None
                if isinstance(cmd, gg.SetSearchAddrH): search[0] = cmd.param
                elif isinstance(cmd, gg.SetSearchAddrM): search[1] = cmd.param
                elif isinstance(cmd, gg.SetSearchAddrL): search[2] = cmd.param
                elif isinstance(cmd, gg.Compare):
                    s = (search[0] << 16) | (search[1] << 8) | search[2]
                    if not ctx.branch(bvv(s) == high.t):
                        viol.append(('search!=high', ctx.get_model()))
                    yes = has_m and ctx.branch(m.t <= bvv(s))
                    if yes:
                        # error flag: at leaf == dup ; elsewhere free
                        leaf = ctx.branch(low.t == high.t)
                        err = dup if leaf else ctx.branch(z3.Bool('err%d' % n))
                        fr = dali.frame.BackwardFrameError(255) if err else dali.frame.BackwardFrame(255)
                        resp = cmd.response(fr)
                    else:
                        resp = cmd.response(None)
                else:
                    viol.append(('unexpected cmd', type(cmd)))
        except StopIteration as e:
            res = e.value
    finally:
        seqs._find_next = real_find_next
    # contract
    if has_m and ctx.branch(m.t <= high.t):
        exp = 'clash' if dup else m
    else:
        exp = None
    if exp is None or isinstance(exp, str):
        ok = res is exp or res == exp
    else:
        ok = (not isinstance(res, str)) and res is not None and ctx.branch(bvv(res) == m.t) and not ctx.branch(bvv(res) != m.t)
    if not ok:
        viol.append(('contract', res, exp, ctx.get_model()))
    return (has_m, dup, type(res).__name__, n, len(calls))
t=time.time()
ctx, res = explore(harness)
from collections import Counter
print("paths", ctx.paths, "queries", ctx.queries, "solver_s", round(ctx.solver_time,2), "wall", round(time.time()-t,2))
for k,v in Counter(res).items(): print(k,v)
print(viol[:3])
