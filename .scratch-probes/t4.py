import asyncio, selectors, sys, types
sys.path.insert(0,'/tmp/probe')
class VSelector(selectors.BaseSelector):
    def __init__(self, loop_ref): self.loop_ref = loop_ref; self._m = {}
    def register(self, fileobj, events, data=None):
        k = selectors.SelectorKey(fileobj, fileobj if isinstance(fileobj,int) else fileobj.fileno(), events, data); self._m[k.fd]=k; return k
    def unregister(self, fileobj):
        fd = fileobj if isinstance(fileobj,int) else fileobj.fileno(); return self._m.pop(fd)
    def modify(self, fileobj, events, data=None): self.unregister(fileobj); return self.register(fileobj, events, data)
    def select(self, timeout=None):
        loop = self.loop_ref[0]
        if timeout is None:
            raise RuntimeError("deadlock: nothing scheduled")
        if timeout > 0: loop._vtime += timeout
        return []
    def get_map(self): return self._m
    def close(self): pass
class VLoop(asyncio.SelectorEventLoop):
    def __init__(self):
        self._vtime = 0.0; ref=[None]; super().__init__(VSelector(ref)); ref[0]=self
    def time(self): return self._vtime
# import driver
import dali.driver.hid as H
from dali.gear.general import QueryStatus, SetMaxLevel
writes=[]
class FakeOS:
    O_RDWR=2; O_NONBLOCK=2048
    def open(self, p, fl): return 99
    def write(self, fd, data): writes.append(bytes(data)); return len(data)
    def read(self, fd, n): return b''
    def close(self, fd): pass
H.os = FakeOS()
async def main():
    loop = asyncio.get_running_loop()
    loop.add_reader = lambda fd, cb: None
    loop.remove_reader = lambda fd: None
    d = H.tridonic('/dev/x')
    d.connect()
    # handshake
    d._handle_read(bytes([0x01,0,0,1,2]+[0]*59))
    d._handle_read(bytes([0x01,1,2,3,4]+[0]*59))
    assert d.connected.is_set()
    t = asyncio.create_task(d.send(QueryStatus(5)))
    await asyncio.sleep(0)
    await asyncio.sleep(0)
    pkt = writes[-1]; seq = pkt[1]
    print('sent', pkt[:12].hex(), 'seq', seq)
    d._handle_read(bytes([0x12,0x73,0,0,pkt[6],pkt[7],0,0,seq]+[0]*55))
    d._handle_read(bytes([0x12,0x72,0,0,0,0x85,0,0,seq]+[0]*55))
    r = await t
    print(type(r), r.raw_value, loop.time())
    await asyncio.sleep(5)
    print('vtime', loop.time())
loop = VLoop()
loop.run_until_complete(main())
