import sys, time
sys.path.insert(0, '/tmp/probe')
import symx
from symx import *
import z3
import dali.sequences as seqs, dali.gear.general as gg, dali.frame, dali.command, dali.address as A
from dali.exceptions import ProgramShortAddressFailure
mods = [m for n, m in sys.modules.items() if n.startswith('dali.') and 'tests' not in n]
install(mods)
real_find_next = seqs._find_next
def bvv(v): return v.t if isinstance(v, SymInt) else z3.BitVecVal(v, W)
NONE = 255
class Unit:
    def __init__(self, i):
        self.i = i
        self.short = SymInt.fresh('short%d' % i, 0, 64)  # 64 == none
        self.rand = 0; self.init = False; self.withdrawn = False; self.rounds = 0
        self.stores = True
    def has_short(self): return not (self.short == 64)
N = int(sys.argv[1]); READDR = sys.argv[2] == '1'; AVAIL = eval(sys.argv[3])
viol = []
def h(ctx):
    units = [Unit(i) for i in range(N)]
    orig = [u.short for u in units]
    search = [None]
    nround = [0]
    def stub(low, high):
        act = [u for u in units if u.init and not u.withdrawn]
        # precondition
        for u in act:
            if not ctx.branch(bvv(u.rand) >= bvv(low)): viol.append(('pre', ctx.get_model()))
        cands = [u for u in act if (u.rand <= high)]
        if not cands:
            search[0] = high
            return None
        m = cands[0].rand
        for u in cands[1:]:
            if u.rand < m: m = u.rand
        dup = sum(1 for u in cands if u.rand == m) > 1
        search[0] = m
        return 'clash' if dup else m
        yield
    seqs._find_next = stub
    ncmd = 0
    try:
        g = seqs.Commissioning(available_addresses=AVAIL, readdress=READDR)
        resp = None; dtr0 = 0; last = None
        try:
            while True:
                cmd = g.send(resp); resp = None
                if not isinstance(cmd, dali.command.Command): continue
                ncmd += 1; last = cmd
                if ncmd > 400: return 'NONTERM'
                if isinstance(cmd, gg.DTR0): dtr0 = cmd.param
                elif isinstance(cmd, gg.SetShortAddress):
                    for u in units:
                        if dtr0 == 255: u.short = 64
                elif isinstance(cmd, gg.QueryControlGearPresent):
                    a = cmd.destination.address
                    n = sum(1 for u in units if u.short == a)
                    resp = cmd.response(None if n == 0 else (dali.frame.BackwardFrame(255) if n == 1 else dali.frame.BackwardFrameError(255)))
                elif isinstance(cmd, gg.Terminate):
                    for u in units: u.init = False; u.withdrawn = False
                elif isinstance(cmd, gg.Initialise):
                    for u in units:
                        if cmd.broadcast or (cmd.address is None and not u.has_short()):
                            u.init = True; u.withdrawn = False
                elif isinstance(cmd, gg.Randomise):
                    nround[0] += 1
                    for u in units:
                        if u.init:
                            u.rand = SymInt.fresh('r%d_%d' % (u.i, nround[0]), 0, 0xFFFFFF)
                    if nround[0] > 2:   # fairness: eventually distinct
                        ini = [u for u in units if u.init]
                        for i in range(len(ini)):
                            for j in range(i + 1, len(ini)):
                                ctx.assume(bvv(ini[i].rand) != bvv(ini[j].rand))
                elif isinstance(cmd, gg.Withdraw):
                    for u in units:
                        if u.init and (u.rand == search[0]): u.withdrawn = True
                elif isinstance(cmd, gg.ProgramShortAddress):
                    for u in units:
                        if u.init and (u.rand == search[0]):
                            u.short = 64 if cmd.address == 'MASK' else cmd.address
                elif isinstance(cmd, gg.VerifyShortAddress):
                    n = sum(1 for u in units if u.init and (u.short == cmd.address))
                    resp = cmd.response(dali.frame.BackwardFrame(255) if n else None)
        except StopIteration:
            pass
    finally:
        seqs._find_next = real_find_next
    # checks
    if not isinstance(last, gg.Terminate): viol.append(('last not terminate',))
    if any(u.init for u in units): viol.append(('left initialising',))
    part = [u for u, o in zip(units, orig) if READDR or (o == 64)]
    npart = 0
    avail_left = list(range(64)) if AVAIL is None else list(AVAIL)
    for u in part:
        npart += 1
    # distinctness among all units that have a short
    for i in range(N):
        for j in range(i + 1, N):
            ui, uj = units[i], units[j]
            if (ui in part or uj in part):
                if ui.has_short() and uj.has_short() and (ui.short == uj.short):
                    viol.append(('duplicate', i, j, ctx.get_model()))
    for u, o in zip(units, orig):
        if u not in part and not (u.short == o): viol.append(('nonparticipant changed',))
    return (npart, nround[0], ncmd)
t = time.time()
ctx, res = explore(h)
from collections import Counter
print("N", N, "paths", ctx.paths, "queries", ctx.queries, "solver_s", round(ctx.solver_time, 2), "wall", round(time.time() - t, 2))
print(Counter(res).most_common(8)); print(viol[:3])
