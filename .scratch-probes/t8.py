import sys, time, asyncio, selectors, re, logging
sys.path.insert(0, '/tmp/probe')
import symx
from symx import *
import z3
logging.disable(logging.CRITICAL)

# --- struct shim interpreting the real format
import struct as _struct
class StructShim:
    def __init__(self, fmt):
        self.format = fmt; self.real = _struct.Struct(fmt); self.size = self.real.size
        body = fmt.lstrip('<>=!@'); self.big = not fmt.startswith('<')
        self.fields = [(int(n) if n else 1, c) for n, c in re.findall(r'(\d*)([xBHIs])', body)]
    def pack(self, *args):
        out = []; it = iter(args)
        for n, c in self.fields:
            if c == 'x': out += [0] * n
            elif c == 's':
                v = list(next(it)); assert len(v) <= n; out += v + [0] * (n - len(v))
            else:
                w = {'B': 1, 'H': 2, 'I': 4}[c]
                for _ in range(n):
                    v = next(it)
                    if isinstance(v, SymInt):
                        if v < 0 or v >= (1 << (8 * w)): raise _struct.error("out of range")
                    bs = [(v >> (8 * i)) & 0xFF for i in range(w)]
                    if self.big: bs.reverse()
                    out += bs
        return SymBytes(out) if any(isinstance(b, SymInt) for b in out) else bytes(out)
    def unpack(self, data):
        data = list(data); assert len(data) == self.size
        pos = 0; res = []
        for n, c in self.fields:
            if c == 'x': pos += n
            elif c == 's': res.append(SymBytes(data[pos:pos + n])); pos += n
            else:
                w = {'B': 1, 'H': 2, 'I': 4}[c]
                for _ in range(n):
                    chunk = data[pos:pos + w]; pos += w
                    if not self.big: chunk = chunk[::-1]
                    acc = 0
                    for b in chunk: acc = (acc << 8) | b
                    res.append(acc)
        return tuple(res)

class VSelector(selectors.BaseSelector):
    def __init__(self, ref): self.ref = ref; self._m = {}
    def register(self, f, e, d=None): k = selectors.SelectorKey(f, f, e, d); self._m[f] = k; return k
    def unregister(self, f): return self._m.pop(f)
    def select(self, timeout=None):
        if timeout is None: raise RuntimeError("deadlock")
        if timeout > 0: self.ref[0]._vtime += timeout
        return []
    def get_map(self): return self._m
class VLoop(asyncio.SelectorEventLoop):
    def __init__(self): self._vtime = 0.0; ref = [None]; super().__init__(VSelector(ref)); ref[0] = self
    def time(self): return self._vtime

import dali.driver.hid as H, dali.frame, dali.command, dali.gear.general as gg
mods = [m for n, m in sys.modules.items() if n.startswith('dali.') and 'tests' not in n]
install(mods)
H.tridonic._cmdtmpl = StructShim(H.tridonic._cmdtmpl.format)
H.tridonic._resptmpl = StructShim(H.tridonic._resptmpl.format)
H._hex = lambda b: "<hex>"
class FakeOS:
    O_RDWR = 2; O_NONBLOCK = 2048
    def __init__(self): self.writes = []
    def open(self, p, fl): return 99
    def write(self, fd, data): self.writes.append(data); return 64
    def close(self, fd): pass
class FakeRandom:
    def randint(self, a, b): return 7
H.random = FakeRandom()
# BackwardFrame(frame) gets SymBytes of 4 -> Frame.__init__ int.from_bytes shim OK

viol = []
def h(ctx):
    fos = FakeOS(); H.os = fos
    out = {}
    async def main():
        loop = asyncio.get_running_loop(); loop.add_reader = lambda fd, cb: None; loop.remove_reader = lambda fd: None
        d = H.tridonic('/dev/x'); d.connect()
        d._handle_read(bytes([1, 0, 0, 1, 2] + [0] * 59)); d._handle_read(bytes([1, 1, 2, 3, 4] + [0] * 59))
        addr = SymInt.fresh('addr', 0, 63)
        cmd = gg.QueryActualLevel(gg.address.GearShort(addr))
        t = asyncio.create_task(d.send(cmd))
        await asyncio.sleep(0); await asyncio.sleep(0)
        pkt = list(fos.writes[-1])
        out['pkt'] = pkt
        seq = pkt[1]
        # gateway: echo then a symbolic report
        d._handle_read(SymBytes([0x12, 0x73, 0, 0, pkt[6], pkt[7], 0, 0, seq] + [0] * 55))
        rtype = SymInt.fresh('rtype', 0, 255); b3 = SymInt.fresh('b3', 0, 255); val = SymInt.fresh('val', 0, 255)
        out['rt'] = (rtype, b3, val)
        d._handle_read(SymBytes([0x12, rtype, 0, 0, 0, val, 0, 0, seq] + [0] * 55))
        for _ in range(5): await asyncio.sleep(0)
        if t.done(): out['res'] = t.result()
        else:
            out['res'] = 'PENDING'; t.cancel()
        d.disconnect()
        await asyncio.sleep(0)
    loop = VLoop()
    try: loop.run_until_complete(main())
    finally: loop.close()
    pkt = out['pkt']; rtype, b3, val = out['rt']; r = out['res']
    # wire format check: cmd=0x12, ctrl 0, mode 3, frame right-aligned in 4 bytes
    lab = 'PENDING' if isinstance(r, str) else (type(r).__name__ + ':' + ('None' if r.raw_value is None else type(r.raw_value).__name__))
    return lab
t = time.time()
ctx, res = explore(h)
from collections import Counter
print("paths", ctx.paths, "queries", ctx.queries, "solver_s", round(ctx.solver_time, 2), "wall", round(time.time() - t, 2))
print(Counter(res))
