import sys, time
sys.path.insert(0, '/tmp/probe')
import symx
from symx import *
import dali.frame, dali.command, dali.address
import dali.gear, dali.device
import dali.gear.general as gg
import dali.device.general as dg

mods = [m for n, m in sys.modules.items() if n.startswith('dali.') and 'tests' not in n]
install(mods)
gg._StandardCommand._opcodes = SymDict(gg._StandardCommand._opcodes)
gg._SpecialCommand._opcodes = SymDict(gg._SpecialCommand._opcodes)

viol = []
def h16(ctx):
    x = SymInt.fresh('x', 0, 0xFFFF)
    dt = SymInt.fresh('dt', 0, 255)
    f = dali.frame.ForwardFrame(16, x)
    c = dali.command.from_frame(f, devicetype=dt)
    ok = (c.frame.as_integer == x) and len(c.frame) == 16
    s = str(c)
    if not ok:
        m = ctx.get_model()
        viol.append((m[x.t], m[dt.t], type(c)))
    return type(c).__name__

t = time.time()
ctx, res = explore(h16)
print("paths", ctx.paths, "queries", ctx.queries, "solver_s", round(ctx.solver_time, 2), "wall", round(time.time() - t, 2))
from collections import Counter
print(len(set(res)), Counter(res).most_common(5))
print("violations", viol[:5])
