import sys, time, asyncio, logging
sys.path.insert(0, '/tmp/probe')
exec(open('/tmp/probe/t8.py').read().split("viol = []")[0])   # reuse shims/setup from t8
import dali.device, dali.device.general as dg, dali.device.pushbutton as pb
for cls, attr in ((gg._StandardCommand,'_opcodes'),(gg._SpecialCommand,'_opcodes')):
    setattr(cls, attr, SymDict(getattr(cls, attr)))
def bvv(v): return v.t if isinstance(v, SymInt) else z3.BitVecVal(v, W)
def h(ctx):
    fos = FakeOS(); H.os = fos
    reports = []
    async def main():
        loop = asyncio.get_running_loop(); loop.add_reader = lambda fd, cb: None; loop.remove_reader = lambda fd: None
        d = H.tridonic('/dev/x'); d.connect()
        d.bus_traffic.register(lambda drv, cmd, rsp, err: reports.append((type(cmd).__name__, None if rsp is None else (type(rsp).__name__, rsp.raw_value is not None), err, loop.time())))
        d._handle_read(bytes([1, 0, 0, 1, 2] + [0] * 59)); d._handle_read(bytes([1, 1, 2, 3, 4] + [0] * 59))
        await asyncio.sleep(0)
        # report 1: observed 16-bit frame, opcode restricted to {DAPC, 0xA0 QueryActualLevel, 0x2A SetMaxLevel}, short address
        x1 = SymInt.fresh('x1', 0, 0xFFFF)
        ctx.assume(z3.And((x1.t & 0x8000) == 0, z3.Or((x1.t & 0x100) == 0, (x1.t & 0x1FF) == 0x1A0, (x1.t & 0x1FF) == 0x12A)))
        d._handle_read(SymBytes([0x11, 0x73, 0, 0, (x1 >> 8) & 0xFF, x1 & 0xFF, 0, 0, 0] + [0] * 55))
        long_gap = ctx.branch(z3.Bool('gap1_long'))
        await asyncio.sleep(0.5 if long_gap else 0.01)
        rt2 = SymInt.fresh('rt2', 0x71, 0x73)
        x2 = SymInt.fresh('x2', 0, 0xFFFF)
        ctx.assume(z3.Or(x2.t == x1.t, x2.t == 0xFE05))
        d._handle_read(SymBytes([0x11, rt2, 0, 0, (x2 >> 8) & 0xFF, x2 & 0xFF, 0, 0, 0] + [0] * 55))
        await asyncio.sleep(1.0)
        d.disconnect(); await asyncio.sleep(0)
    loop = VLoop()
    try: loop.run_until_complete(main())
    finally: loop.close()
    return tuple(reports)
t = time.time()
ctx, res = explore(h)
from collections import Counter
print("paths", ctx.paths, "queries", ctx.queries, "solver_s", round(ctx.solver_time, 2), "wall", round(time.time() - t, 2))
for k, v in Counter(res).most_common(30): print(v, k)
