"""Realistic one-line mutations per property: (prop, file, old, new, description)."""
MUTANTS = [
    ("C05", "dali/frame.py", "if hi >= self._bits or lo >= self._bits:", "if hi > self._bits or lo >= self._bits:",
     "slice index == width accepted"),
    ("C05", "dali/frame.py", "if value.bit_length() > (hi + 1 - lo):", "if value.bit_length() > (hi + 2 - lo):",
     "slice write accepts one-too-large value"),
    ("C05", "dali/frame.py", "            if value < 0:\n                raise ValueError(\"value must not be negative\")\n", "",
     "slice write accepts negative value"),
    ("C05", "dali/frame.py", "& (((1 << self._bits) - 1) ^ (1 << key))", "& (((1 << self._bits) - 1) ^ (1 << key)) & ~(1 << 20 if key == 3 else 0)",
     "clearing bit 3 also clears bit 20"),
    ("C05", "dali/frame.py", "return self._bits == other._bits and self._data == other._data", "return self._data == other._data",
     "equality ignores width"),
    ("C05", "dali/frame.py", "return self._data != (1 << self._bits) - 1", "return self._data != (1 << self._bits)",
     "False-in-frame off by one"),
    ("C05", "dali/frame.py", "(len(self) // 8) + (1 if len(self) % 8 else 0),", "(len(self) // 8) + (1 if len(self) % 8 else 0) + (1 if len(self) == 13 else 0),",
     "pack one byte too long for width 13"),
]
