"""Mutation self-test: ./selftest/run.py [PROP ...] [--tier quick] [--only N]

Each mutant is a textual replacement applied to a scratch copy of /repo's
`dali` package (outside /repo and /verif); the property's check must report a
VIOLATION (exit 1) on it and exit 0 on the pristine copy.  Scratch copies are
deleted immediately.
"""
import argparse
import os
import shutil
import subprocess
import sys
import tempfile
import time

HERE = os.path.dirname(os.path.abspath(__file__))
VERIF = os.path.dirname(HERE)
sys.path.insert(0, HERE)
from mutants import MUTANTS  # noqa: E402


def run_one(prop, tier, path, old, new, desc, extra_env=None):
    tmp = tempfile.mkdtemp(prefix="symx-mut-")
    try:
        shutil.copytree("/repo/dali", os.path.join(tmp, "dali"),
                        ignore=shutil.ignore_patterns("__pycache__"))
        if path is not None:
            fp = os.path.join(tmp, path)
            src = open(fp).read()
            olds = old if isinstance(old, (list, tuple)) else [old]
            news = new if isinstance(new, (list, tuple)) else [new]
            for o, nw in zip(olds, news):
                if src.count(o) < 1:
                    return "STALE", 0.0, "pattern not found: %r" % o[:60]
                src = src.replace(o, nw, 1)
            open(fp, "w").write(src)
        env = dict(os.environ, VERIF_REPO=tmp, VERIF_EVIDENCE_DIR=os.path.join(tmp, "ev"),
                   VERIF_REPLAY_DIR=os.path.join(tmp, "rp"), PYTHONDONTWRITEBYTECODE="1")
        env.update(extra_env or {})
        t = time.time()
        p = subprocess.run([os.path.join(VERIF, "check"), prop, "--tier", tier],
                           env=env, capture_output=True, text=True)
        dt = time.time() - t
        tail = [l for l in p.stdout.splitlines() if l.startswith(("VIOLATION", "  case", "INCONCLUSIVE", "KNOWN"))]
        return p.returncode, dt, "\n      ".join(tail[:4]) or p.stderr[-300:]
    finally:
        shutil.rmtree(tmp, ignore_errors=True)


def main():
    ap = argparse.ArgumentParser()
    ap.add_argument("props", nargs="*")
    ap.add_argument("--tier", default="quick")
    ap.add_argument("--only", type=int)
    ap.add_argument("--no-pristine", action="store_true")
    a = ap.parse_args()
    props = a.props or sorted({m[0] for m in MUTANTS})
    failed = 0
    for prop in props:
        if not a.no_pristine and a.only is None:
            rc, dt, tail = run_one(prop, a.tier, None, None, None, "pristine")
            print("%s pristine: exit=%s %.1fs %s" % (prop, rc, dt, "" if rc == 0 else tail))
            failed += rc != 0
        for i, (p, path, old, new, desc) in enumerate([m for m in MUTANTS if m[0] == prop]):
            if a.only is not None and i != a.only:
                continue
            rc, dt, tail = run_one(prop, a.tier, path, old, new, desc)
            ok = rc == 1
            print("%s mutant %d [%s] %s: exit=%s %.1fs %s\n      %s"
                  % (prop, i, "caught" if ok else "MISSED", desc, rc, dt, path, tail))
            failed += not ok
    return 1 if failed else 0


if __name__ == "__main__":
    sys.exit(main())
