"""Reference decoder for IEC 62386-103 event messages (24-bit, bit 16 = 0).

Written from the standard (103 Table 3 'event scheme / source
identification', 301 Table 2, 303 / 304 event information); it does not
import the library.  Works on plain ints and on symx SymInts (comparisons on
the latter are decided by the solver; on a completed decode path they are
already fixed by the path condition).
"""

# IEC 62386-301: event information -> event name
PUSHBUTTON = {
    0b0000000000: "ButtonReleased",
    0b0000000001: "ButtonPressed",
    0b0000000010: "ShortPress",
    0b0000000101: "DoublePress",
    0b0000001001: "LongPressStart",
    0b0000001011: "LongPressRepeat",
    0b0000001100: "LongPressStop",
    0b0000001110: "ButtonFree",
    0b0000001111: "ButtonStuck",
}


class RefEvent:
    __slots__ = ("scheme", "short", "inst_number", "inst_group", "dev_group",
                 "inst_type", "data")

    def __init__(self):
        self.scheme = None
        self.short = self.inst_number = self.inst_group = None
        self.dev_group = self.inst_type = None
        self.data = None


def decode_source(x):
    """Scheme and source fields of a 24-bit event frame; None if the frame is
    not an event (bit 16 set, or reserved scheme 1x1 with bit 22 set)."""
    if (x >> 16) & 1 != 0:
        return None
    b23 = (x >> 23) & 1
    b22 = (x >> 22) & 1
    b15 = (x >> 15) & 1
    r = RefEvent()
    r.data = x & 0x3FF
    f_hi6 = (x >> 17) & 0x3F
    f_hi5 = (x >> 17) & 0x1F
    f_lo5 = (x >> 10) & 0x1F
    if b23 == 0:
        r.short = f_hi6
        if b15 == 0:
            r.scheme = "device"
            r.inst_type = f_lo5
        else:
            r.scheme = "device_instance"
            r.inst_number = f_lo5
    elif b22 == 0:
        if b15 == 0:
            r.scheme = "device_group"
            r.dev_group = f_hi5
            r.inst_type = f_lo5
        else:
            r.scheme = "instance"
            r.inst_type = f_hi5
            r.inst_number = f_lo5
    else:
        if b15 == 0:
            r.scheme = "instance_group"
            r.inst_group = f_hi5
            r.inst_type = f_lo5
        else:
            return None
    return r


def event_class(inst_type, data):
    """Name of the event class for an instance type and 10 bits of data."""
    if inst_type == 1:
        for code, name in PUSHBUTTON.items():
            if data == code:
                return name
        return "UnknownEvent"
    if inst_type == 3:
        if (data >> 4) == 0:
            return "OccupancyEvent"
        return "UnknownEvent"
    if inst_type == 4:
        return "LightEvent"
    return "UnknownEvent"
