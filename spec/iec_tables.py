"""IEC 62386 command tables, transcribed row by row (independent of the library).

Sources: IEC 62386-102 ed.2 Tables 15/16; -103 Tables 21/22; -202, -205,
-206, -207, -209 application extended command tables; -301, -303, -304
instance command tables.  The library is *not* imported here.

Row: (part, name, kind, code, param, twice, answer, devtype)

  kind   "dapc"      16-bit direct arc power: selector bit 0, level byte
         "std"       16-bit addressed command: selector bit 1, opcode byte
                     (param "n4": low nibble is a 4-bit parameter)
         "special"   16-bit special command: fixed first byte `code`, second
                     byte is the parameter (param "byte") or 0x00
                     (param "init": INITIALISE's device byte)
         "dev"       24-bit device command: instance byte 0xFE, opcode `code`
         "inst"      24-bit instance command: opcode `code`
         "dspecial"  24-bit special command: first byte 0xC1, second byte
                     `code`, third byte parameter (param "byte") or 0x00
                     (param "init": INITIALISE's device byte)
         "dspecial2" 24-bit special command with two data bytes: first byte
                     `code`
  twice  True / False / None (None = not asserted, transcriber unsure)
  answer None (no answer) / "yn" (yes/no) / "byte" (8-bit value) / "any"
         (an answer is expected, kind not asserted)
  devtype 0 or the device type that must be enabled first (2xx parts)

`name` is the standard's command name in the library's documented CamelCase
convention (ALL CAPS -> AllCaps, abbreviations kept).
"""

MODULE_OF_PART = {
    102: "dali.gear.general", 103: "dali.device.general",
    202: "dali.gear.emergency", 205: "dali.gear.incandescent",
    206: "dali.gear.converter", 207: "dali.gear.led", 209: "dali.gear.colour",
    301: "dali.device.pushbutton", 303: "dali.device.occupancy",
    304: "dali.device.light",
}

T, F_, N = True, False, None

ROWS = []


def _r(part, name, kind, code, param=None, twice=False, answer=None, devtype=0):
    ROWS.append((part, name, kind, code, param, twice, answer, devtype))


# --------------------------------------------------------------------------
# IEC 62386-102 Table 15
_r(102, "DAPC", "dapc", None, "level")
for _i, _n in enumerate(["Off", "Up", "Down", "StepUp", "StepDown", "RecallMaxLevel",
                         "RecallMinLevel", "StepDownAndOff", "OnAndStepUp",
                         "EnableDAPCSequence", "GoToLastActiveLevel", "ContinuousUp",
                         "ContinuousDown"]):
    _r(102, _n, "std", _i)
_r(102, "GoToScene", "std", 0x10, "n4")
_r(102, "Reset", "std", 0x20, twice=T)
_r(102, "StoreActualLevelInDTR0", "std", 0x21, twice=T)
_r(102, "SavePersistentVariables", "std", 0x22, twice=T)
_r(102, "SetOperatingMode", "std", 0x23, twice=T)
_r(102, "ResetMemoryBank", "std", 0x24, twice=T)
_r(102, "IdentifyDevice", "std", 0x25, twice=T)
_r(102, "SetMaxLevel", "std", 0x2A, twice=T)
_r(102, "SetMinLevel", "std", 0x2B, twice=T)
_r(102, "SetSystemFailureLevel", "std", 0x2C, twice=T)
_r(102, "SetPowerOnLevel", "std", 0x2D, twice=T)
_r(102, "SetFadeTime", "std", 0x2E, twice=T)
_r(102, "SetFadeRate", "std", 0x2F, twice=T)
_r(102, "SetExtendedFadeTime", "std", 0x30, twice=T)
_r(102, "SetScene", "std", 0x40, "n4", twice=T)
_r(102, "RemoveFromScene", "std", 0x50, "n4", twice=T)
_r(102, "AddToGroup", "std", 0x60, "n4", twice=T)
_r(102, "RemoveFromGroup", "std", 0x70, "n4", twice=T)
_r(102, "SetShortAddress", "std", 0x80, twice=T)
_r(102, "EnableWriteMemory", "std", 0x81, twice=T)
_r(102, "QueryStatus", "std", 0x90, answer="byte")
_r(102, "QueryControlGearPresent", "std", 0x91, answer="yn")
_r(102, "QueryLampFailure", "std", 0x92, answer="yn")
_r(102, "QueryLampPowerOn", "std", 0x93, answer="yn")
_r(102, "QueryLimitError", "std", 0x94, answer="yn")
_r(102, "QueryResetState", "std", 0x95, answer="yn")
_r(102, "QueryMissingShortAddress", "std", 0x96, answer="yn")
_r(102, "QueryVersionNumber", "std", 0x97, answer="byte")
_r(102, "QueryContentDTR0", "std", 0x98, answer="byte")
_r(102, "QueryDeviceType", "std", 0x99, answer="byte")
_r(102, "QueryPhysicalMinimum", "std", 0x9A, answer="byte")
_r(102, "QueryPowerFailure", "std", 0x9B, answer="yn")
_r(102, "QueryContentDTR1", "std", 0x9C, answer="byte")
_r(102, "QueryContentDTR2", "std", 0x9D, answer="byte")
_r(102, "QueryOperatingMode", "std", 0x9E, answer="byte")
_r(102, "QueryLightSourceType", "std", 0x9F, answer="byte")
_r(102, "QueryActualLevel", "std", 0xA0, answer="byte")
_r(102, "QueryMaxLevel", "std", 0xA1, answer="byte")
_r(102, "QueryMinLevel", "std", 0xA2, answer="byte")
_r(102, "QueryPowerOnLevel", "std", 0xA3, answer="byte")
_r(102, "QuerySystemFailureLevel", "std", 0xA4, answer="byte")
_r(102, "QueryFadeTimeFadeRate", "std", 0xA5, answer="byte")
_r(102, "QueryManufacturerSpecificMode", "std", 0xA6, answer="yn")
_r(102, "QueryNextDeviceType", "std", 0xA7, answer="byte")
_r(102, "QueryExtendedFadeTime", "std", 0xA8, answer="byte")
_r(102, "QueryControlGearFailure", "std", 0xAA, answer="yn")
_r(102, "QuerySceneLevel", "std", 0xB0, "n4", answer="byte")
_r(102, "QueryGroupsZeroToSeven", "std", 0xC0, answer="byte")
_r(102, "QueryGroupsEightToFifteen", "std", 0xC1, answer="byte")
_r(102, "QueryRandomAddressH", "std", 0xC2, answer="byte")
_r(102, "QueryRandomAddressM", "std", 0xC3, answer="byte")
_r(102, "QueryRandomAddressL", "std", 0xC4, answer="byte")
_r(102, "ReadMemoryLocation", "std", 0xC5, answer="byte")
_r(102, "QueryExtendedVersionNumber", "std", 0xFF, answer="byte")
# IEC 62386-102 Table 16 (special commands)
_r(102, "Terminate", "special", 0xA1)
_r(102, "DTR0", "special", 0xA3, "byte")
_r(102, "Initialise", "special", 0xA5, "init", twice=T)
_r(102, "Randomise", "special", 0xA7, twice=T)
_r(102, "Compare", "special", 0xA9, answer="yn")
_r(102, "Withdraw", "special", 0xAB)
_r(102, "Ping", "special", 0xAD)
_r(102, "SearchaddrH", "special", 0xB1, "byte")
_r(102, "SearchaddrM", "special", 0xB3, "byte")
_r(102, "SearchaddrL", "special", 0xB5, "byte")
_r(102, "ProgramShortAddress", "special", 0xB7, "short")
_r(102, "VerifyShortAddress", "special", 0xB9, "short", answer="yn")
_r(102, "QueryShortAddress", "special", 0xBB, answer="byte")
_r(102, "EnableDeviceType", "special", 0xC1, "byte")
_r(102, "DTR1", "special", 0xC3, "byte")
_r(102, "DTR2", "special", 0xC5, "byte")
_r(102, "WriteMemoryLocation", "special", 0xC7, "byte", answer="byte")
_r(102, "WriteMemoryLocationNoReply", "special", 0xC9, "byte")

# --------------------------------------------------------------------------
# IEC 62386-103 Table 21 (device commands, instance byte 0xFE)
for _c, _n in [(0x00, "IdentifyDevice"), (0x01, "ResetPowerCycleSeen"), (0x10, "Reset"),
               (0x11, "ResetMemoryBank"), (0x14, "SetShortAddress"), (0x15, "EnableWriteMemory"),
               (0x16, "EnableApplicationController"), (0x17, "DisableApplicationController"),
               (0x18, "SetOperatingMode"), (0x19, "AddToDeviceGroupsZeroToFifteen"),
               (0x1A, "AddToDeviceGroupsSixteenToThirtyOne"),
               (0x1B, "RemoveFromDeviceGroupsZeroToFifteen"),
               (0x1C, "RemoveFromDeviceGroupsSixteenToThirtyOne"),
               (0x1D, "StartQuiescentMode"), (0x1E, "StopQuiescentMode"),
               (0x1F, "EnablePowerCycleNotification"), (0x20, "DisablePowerCycleNotification"),
               (0x21, "SavePersistentVariables")]:
    _r(103, _n, "dev", _c, twice=T)
for _c, _n, _a in [(0x30, "QueryDeviceStatus", "byte"), (0x31, "QueryApplicationControllerError", "byte"),
                   (0x32, "QueryInputDeviceError", "byte"), (0x33, "QueryMissingShortAddress", "yn"),
                   (0x34, "QueryVersionNumber", "byte"), (0x35, "QueryNumberOfInstances", "byte"),
                   (0x36, "QueryContentDTR0", "byte"), (0x37, "QueryContentDTR1", "byte"),
                   (0x38, "QueryContentDTR2", "byte"), (0x39, "QueryRandomAddressH", "byte"),
                   (0x3A, "QueryRandomAddressM", "byte"), (0x3B, "QueryRandomAddressL", "byte"),
                   (0x3C, "ReadMemoryLocation", "byte"), (0x3D, "QueryApplicationControlEnabled", "yn"),
                   (0x3E, "QueryOperatingMode", "byte"), (0x3F, "QueryManufacturerSpecificMode", "yn"),
                   (0x40, "QueryQuiescentMode", "yn"), (0x41, "QueryDeviceGroupsZeroToSeven", "byte"),
                   (0x42, "QueryDeviceGroupsEightToFifteen", "byte"),
                   (0x43, "QueryDeviceGroupsSixteenToTwentyThree", "byte"),
                   (0x44, "QueryDeviceGroupsTwentyFourToThirtyOne", "byte"),
                   (0x45, "QueryPowerCycleNotification", "yn"), (0x46, "QueryDeviceCapabilities", "byte"),
                   (0x47, "QueryExtendedVersionNumber", "byte"), (0x48, "QueryResetState", "yn")]:
    _r(103, _n, "dev", _c, answer=_a)
# instance commands
for _c, _n in [(0x61, "SetEventPriority"), (0x62, "EnableInstance"), (0x63, "DisableInstance"),
               (0x64, "SetPrimaryInstanceGroup"), (0x65, "SetInstanceGroup1"),
               (0x66, "SetInstanceGroup2"), (0x67, "SetEventScheme"), (0x68, "SetEventFilter")]:
    _r(103, _n, "inst", _c, twice=T)
for _c, _n, _a in [(0x80, "QueryInstanceType", "byte"), (0x81, "QueryResolution", "byte"),
                   (0x82, "QueryInstanceError", "byte"), (0x83, "QueryInstanceStatus", "byte"),
                   (0x84, "QueryEventPriority", "byte"), (0x86, "QueryInstanceEnabled", "yn"),
                   (0x88, "QueryPrimaryInstanceGroup", "byte"), (0x89, "QueryInstanceGroup1", "byte"),
                   (0x8A, "QueryInstanceGroup2", "byte"), (0x8B, "QueryEventScheme", "byte"),
                   (0x8C, "QueryInputValue", "byte"), (0x8D, "QueryInputValueLatch", "byte"),
                   (0x8E, "QueryFeatureType", "byte"), (0x8F, "QueryNextFeatureType", "byte"),
                   (0x90, "QueryEventFilterZeroToSeven", "byte"),
                   (0x91, "QueryEventFilterEightToFifteen", "byte"),
                   (0x92, "QueryEventFilterSixteenToTwentyThree", "byte")]:
    _r(103, _n, "inst", _c, answer=_a)
# IEC 62386-103 Table 22 (special commands)
_r(103, "Terminate", "dspecial", 0x00)
_r(103, "Initialise", "dspecial", 0x01, "byte", twice=T)
_r(103, "Randomise", "dspecial", 0x02, twice=T)
_r(103, "Compare", "dspecial", 0x03, answer="yn")
_r(103, "Withdraw", "dspecial", 0x04)
_r(103, "SearchAddrH", "dspecial", 0x05, "byte")
_r(103, "SearchAddrM", "dspecial", 0x06, "byte")
_r(103, "SearchAddrL", "dspecial", 0x07, "byte")
_r(103, "ProgramShortAddress", "dspecial", 0x08, "byte")
_r(103, "VerifyShortAddress", "dspecial", 0x09, "byte", answer="yn")
_r(103, "QueryShortAddress", "dspecial", 0x0A, answer="byte")
_r(103, "WriteMemoryLocation", "dspecial", 0x20, "byte", answer="byte")
_r(103, "WriteMemoryLocationNoReply", "dspecial", 0x21, "byte")
_r(103, "DTR0", "dspecial", 0x30, "byte")
_r(103, "DTR1", "dspecial", 0x31, "byte")
_r(103, "DTR2", "dspecial", 0x32, "byte")
_r(103, "SendTestframe", "dspecial", 0x33, "byte")
_r(103, "DirectWriteMemory", "dspecial2", 0xC5, "2byte", answer="byte")
_r(103, "DTR1DTR0", "dspecial2", 0xC7, "2byte")
_r(103, "DTR2DTR1", "dspecial2", 0xC9, "2byte")

# --------------------------------------------------------------------------
# IEC 62386-202 (device type 1, self-contained emergency lighting)
# send-twice of the control commands 224..232, 240 and 254 is not asserted (N)
for _c, _n, _t in [(224, "Rest", N), (225, "Inhibit", N), (226, "ReLightResetInhibit", N),
                   (227, "StartFunctionTest", N), (228, "StartDurationTest", N), (229, "StopTest", N),
                   (230, "ResetFunctionTestDoneFlag", N), (231, "ResetDurationTestDoneFlag", N),
                   (232, "ResetLampTime", N), (233, "StoreDTRAsEmergencyLevel", T),
                   (234, "StoreTestDelayTimeHighByte", T), (235, "StoreTestDelayTimeLowByte", T),
                   (236, "StoreFunctionTestInterval", T), (237, "StoreDurationTestInterval", T),
                   (238, "StoreTestExecutionTimeout", T), (239, "StoreProlongTime", T),
                   (240, "StartIdentification", N), (254, "PerformDTRSelectedFunction", N)]:
    _r(202, _n, "std", _c, twice=_t, devtype=1)
for _c, _n in [(241, "QueryBatteryCharge"), (242, "QueryTestTiming"), (243, "QueryDurationTestResult"),
               (244, "QueryLampEmergencyTime"), (245, "QueryLampTotalOperationTime"),
               (246, "QueryEmergencyLevel"), (247, "QueryEmergencyMinLevel"),
               (248, "QueryEmergencyMaxLevel"), (249, "QueryRatedDuration"),
               (250, "QueryEmergencyMode"), (251, "QueryEmergencyFeatures"),
               (252, "QueryEmergencyFailureStatus"), (253, "QueryEmergencyStatus"),
               (255, "QueryExtendedVersionNumber")]:
    _r(202, _n, "std", _c, answer="byte", devtype=1)

# IEC 62386-205 (device type 4, incandescent lamp dimmers)
_r(205, "ReferenceSystemPower", "std", 224, twice=T, devtype=4)
_r(205, "SelectDimmingCurve", "std", 225, twice=T, devtype=4)
for _c, _n, _a in [(238, "QueryDimmingCurve", "byte"), (239, "QueryDimmerStatus", "byte"),
                   (240, "QueryFeatures", "byte"), (241, "QueryFailureStatus", "byte"),
                   (242, "QueryDimmerTemperature", "byte"), (243, "QueryRMSSupplyVoltage", "byte"),
                   (244, "QuerySupplyFrequency", "byte"), (245, "QueryRMSLoadVoltage", "byte"),
                   (246, "QueryRMSLoadCurrent", "byte"), (247, "QueryRealLoadPower", "byte"),
                   (248, "QueryLoadRating", "byte"), (249, "QueryReferenceRunning", "yn"),
                   (250, "QueryReferenceMeasurementFailed", "yn"),
                   (255, "QueryExtendedVersionNumber", "byte")]:
    _r(205, _n, "std", _c, answer=_a, devtype=4)

# IEC 62386-206 (device type 5, conversion to d.c. voltage)
for _c, _n in [(224, "SetOutputRange1To10V"), (225, "SetOutputRange0To10V"),
               (226, "SwitchOnInternalPullUp"), (227, "SwitchOffInternalPullUp"),
               (228, "StoreDtrAsPhysicalMinimum"), (229, "SelectDimmingCurve"),
               (230, "ResetConverterSettings")]:
    _r(206, _n, "std", _c, twice=T, devtype=5)
for _c, _n in [(238, "QueryDimmingCurve"), (239, "QueryOutputLevel"), (240, "QueryConverterFeatures"),
               (241, "QueryFailureStatus"), (242, "QueryConverterStatus"),
               (255, "QueryExtendedVersionNumber")]:
    _r(206, _n, "std", _c, answer="byte", devtype=5)

# IEC 62386-207 (device type 6, LED modules)
for _c, _n in [(224, "ReferenceSystemPower"), (225, "EnableCurrentProtector"),
               (226, "DisableCurrentProtector"), (227, "SelectDimmingCurve"),
               (228, "StoreDTRAsFastFadeTime")]:
    _r(207, _n, "std", _c, twice=T, devtype=6)
for _c, _n, _a in [(237, "QueryGearType", "byte"), (238, "QueryDimmingCurve", "byte"),
                   (239, "QueryPossibleOperatingModes", "byte"), (240, "QueryFeatures", "byte"),
                   (241, "QueryFailureStatus", "byte"), (242, "QueryShortCircuit", "yn"),
                   (243, "QueryOpenCircuit", "yn"), (244, "QueryLoadDecrease", "yn"),
                   (245, "QueryLoadIncrease", "yn"), (246, "QueryCurrentProtectorActive", "yn"),
                   (247, "QueryThermalShutDown", "yn"), (248, "QueryThermalOverload", "yn"),
                   (249, "QueryReferenceRunning", "yn"), (250, "QueryReferenceMeasurementFailed", "yn"),
                   (251, "QueryCurrentProtectorEnabled", "yn"), (252, "QueryOperatingMode", "byte"),
                   (253, "QueryFastFadeTime", "byte"), (254, "QueryMinFastFadeTime", "byte"),
                   (255, "QueryExtendedVersionNumber", "byte")]:
    _r(207, _n, "std", _c, answer=_a, devtype=6)

# IEC 62386-209 (device type 8, colour control)
for _c, _n in [(224, "SetTemporaryXCoordinate"), (225, "SetTemporaryYCoordinate"), (226, "Activate"),
               (227, "XCoordinateStepUp"), (228, "XCoordinateStepDown"), (229, "YCoordinateStepUp"),
               (230, "YCoordinateStepDown"), (231, "SetTemporaryColourTemperature"),
               (232, "ColourTemperatureTcStepCooler"), (233, "ColourTemperatureTcStepWarmer"),
               (234, "SetTemporaryPrimaryNDimLevel"), (235, "SetTemporaryRGBDimLevel"),
               (236, "SetTemporaryWAFDimLevel"), (237, "SetTemporaryRGBWAFControl"),
               (238, "CopyReportToTemporary")]:
    _r(209, _n, "std", _c, devtype=8)
for _c, _n, _t in [(240, "StoreTYPrimaryN", T), (241, "StoreXYCoordinatePrimaryN", T),
                   (242, "StoreColourTemperatureTcLimit", T), (243, "StoreGearFeaturesStatus", T),
                   (245, "AssignColourToLinkedChannel", T), (246, "StartAutoCalibration", N)]:
    _r(209, _n, "std", _c, twice=_t, devtype=8)
for _c, _n in [(247, "QueryGearFeaturesStatus"), (248, "QueryColourStatus"),
               (249, "QueryColourTypeFeatures"), (250, "QueryColourValue"),
               (251, "QueryRBGWAFControl"), (252, "QueryAssignedColour"),
               (255, "QueryExtendedVersionNumber")]:
    _r(209, _n, "std", _c, answer="byte", devtype=8)

# --------------------------------------------------------------------------
# IEC 62386-301 / 303 / 304 instance commands
for _c, _n in [(0x00, "SetShortTimer"), (0x01, "SetDoubleTimer"), (0x02, "SetRepeatTimer"),
               (0x03, "SetStuckTimer")]:
    _r(301, _n, "inst", _c, twice=T)
for _c, _n in [(0x0A, "QueryShortTimer"), (0x0B, "QueryShortTimerMin"), (0x0C, "QueryDoubleTimer"),
               (0x0D, "QueryDoubleTimerMin"), (0x0E, "QueryRepeatTimer"), (0x0F, "QueryStuckTimer")]:
    _r(301, _n, "inst", _c, answer="byte")
_r(303, "CatchMovement", "inst", 0x20)
_r(303, "SetHoldTimer", "inst", 0x21, twice=T)
_r(303, "SetReportTimer", "inst", 0x22, twice=T)
_r(303, "SetDeadtimeTimer", "inst", 0x23, twice=T)
_r(303, "CancelHoldTimer", "inst", 0x24)
_r(303, "QueryDeadtimeTimer", "inst", 0x2C, answer="byte")
_r(303, "QueryHoldTimer", "inst", 0x2D, answer="byte")
_r(303, "QueryReportTimer", "inst", 0x2E, answer="byte")
_r(303, "QueryCatching", "inst", 0x2F, answer="yn")
_r(304, "SetReportTimer", "inst", 0x30, twice=T)
_r(304, "SetHysteresis", "inst", 0x31, twice=T)
_r(304, "SetDeadtimeTimer", "inst", 0x32, twice=T)
_r(304, "SetHysteresisMin", "inst", 0x33, twice=T)
_r(304, "QueryHysteresisMin", "inst", 0x3C, answer="byte")
_r(304, "QueryDeadtimeTimer", "inst", 0x3D, answer="byte")
_r(304, "QueryReportTimer", "inst", 0x3E, answer="byte")
_r(304, "QueryHysteresis", "inst", 0x3F, answer="byte")

# --------------------------------------------------------------------------
# Events (IEC 62386-103 Table 3 + 301 Table 2 + 303 + 304): (part, name,
# instance type, fixed 10-bit code or None when the data is a parameter)
EVENTS = [
    (301, "ButtonReleased", 1, 0b0000000000), (301, "ButtonPressed", 1, 0b0000000001),
    (301, "ShortPress", 1, 0b0000000010), (301, "DoublePress", 1, 0b0000000101),
    (301, "LongPressStart", 1, 0b0000001001), (301, "LongPressRepeat", 1, 0b0000001011),
    (301, "LongPressStop", 1, 0b0000001100), (301, "ButtonFree", 1, 0b0000001110),
    (301, "ButtonStuck", 1, 0b0000001111),
    (303, "OccupancyEvent", 3, None),     # data: 4 flag bits
    (304, "LightEvent", 4, None),         # data: 10-bit illuminance
]

# classes of the library that are deliberately not in any table
NOT_IN_TABLES = {"UnknownGearCommand", "UnknownDeviceCommand", "UnknownEvent",
                 "AmbiguousInstanceType"}

# --------------------------------------------------------------------------
# table-driven encoders (work on ints and on symx SymInts)

GEAR_ADDR = {          # kind -> (number range or None, function number -> 7 address bits)
    "short": (63, lambda n: n),                 # 0AAAAAA
    "group": (15, lambda n: 0x40 | n),          # 100AAAA
    "broadcast": (None, lambda n: 0x7F),        # 1111111
    "unaddressed": (None, lambda n: 0x7E),      # 1111110
}
DEVICE_ADDR = {
    "short": (63, lambda n: n),                 # 0AAAAAA
    "group": (31, lambda n: 0x40 | n),          # 10AAAAA
    "broadcast": (None, lambda n: 0x7F),
    "unaddressed": (None, lambda n: 0x7E),
}
INSTANCE = {           # kind -> (has number, function number -> instance byte)
    "number": (True, lambda n: 0x00 | n), "group": (True, lambda n: 0x80 | n),
    "type": (True, lambda n: 0xC0 | n), "feature_number": (True, lambda n: 0x20 | n),
    "feature_group": (True, lambda n: 0xA0 | n), "feature_type": (True, lambda n: 0x60 | n),
    "feature_broadcast": (False, lambda n: 0xFD), "broadcast": (False, lambda n: 0xFF),
    "feature_device": (False, lambda n: 0xFC),
}


def init_byte(spec):
    """INITIALISE device byte: ('all',) -> 0x00 ... see 102 Table 16: 0000 0000 all,
    0AAA AAA1 the short address, 1111 1111 units without a short address."""
    if spec[0] == "all":
        return 0x00
    if spec[0] == "unaddressed":
        return 0xFF
    return (spec[1] << 1) | 1


def encode16(kind, code, addr7=None, param=None):
    if kind == "dapc":
        return (addr7 << 9) | param
    if kind == "std":
        return (addr7 << 9) | 0x100 | code | (param if param is not None else 0)
    if kind == "special":
        return (code << 8) | (param if param is not None else 0)
    raise ValueError(kind)


def encode24(kind, code, addr7=None, inst=None, p1=None, p2=None):
    if kind == "dev":
        return (addr7 << 17) | 0x10000 | (0xFE << 8) | code
    if kind == "inst":
        return (addr7 << 17) | 0x10000 | (inst << 8) | code
    if kind == "dspecial":
        return (0xC1 << 16) | (code << 8) | (p1 if p1 is not None else 0)
    if kind == "dspecial2":
        return (code << 16) | (p1 << 8) | p2
    raise ValueError(kind)


def encode_event(scheme, itype, data, short=None, inst_number=None, dev_group=None, inst_group=None):
    """103 Table 3: bit 16 = 0; scheme from bits 23/22/15."""
    if scheme == "device":
        return (short << 17) | (itype << 10) | data
    if scheme == "device_instance":
        return (short << 17) | 0x8000 | (inst_number << 10) | data
    if scheme == "device_group":
        return 0x800000 | (dev_group << 17) | (itype << 10) | data
    if scheme == "instance":
        return 0x800000 | (itype << 17) | 0x8000 | (inst_number << 10) | data
    if scheme == "instance_group":
        return 0xC00000 | (inst_group << 17) | (itype << 10) | data
    raise ValueError(scheme)
