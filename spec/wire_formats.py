"""Gateway wire formats, written from the vendors' protocol documents quoted in
the drivers' comments (Lunatone LUBA and SCI RS232, Tridonic DALI USB,
hasseb, daliserver, ATX LED hat, UniPi) - independent of the driver code.

Everything works on plain ints and on symx SymInts.
"""
from functools import reduce

# ----------------------------------------------------------------------------------------------
# Lunatone LUBA: 'Y' cmd len payload[len] checksum ; checksum = XOR(cmd, len, payload)

LUBA_START = 0x59
LUBA_MAX_LEN = 23            # payload lengths 1..23 are legal
LUBA_EVENT, LUBA_TX_RSP, LUBA_INFO_RSP, LUBA_SETTINGS_RSP = 0x31, 0x33, 0x21, 0x2B
LUBA_KNOWN = (0x2A, 0x2B, 0x2C, 0x2D, 0x20, 0x21, 0x31, 0x32, 0x33, 0x34, 0x35, 0x36, 0x37)


def xor_all(xs):
    return reduce(lambda a, b: a ^ b, xs)


def luba_malformed(cmd, payload):
    """A checksum-valid frame whose payload is malformed for its type (the
    driver reports these by raising deliberately; streams containing one are
    set aside)."""
    n = len(payload)
    if cmd == LUBA_EVENT:
        if n < 4:
            return True
        if (payload[3] >> 6) == 0 and n < 5:
            return True
        return False
    if cmd == LUBA_TX_RSP:
        return n not in (1, 2)
    if cmd == LUBA_INFO_RSP:
        return n != 20
    if cmd == LUBA_SETTINGS_RSP:
        return n < 2
    return False


def luba_items(cmd, payload):
    """Items a well-formed, checksum-valid LUBA frame denotes."""
    if cmd == LUBA_EVENT:
        status = payload[3]
        etype = status >> 6
        info = status & 0x3F
        if etype == 0:
            return [("txconf", payload[4], tuple(payload[5:]))]
        if etype == 2:
            if not (1 <= info <= 32):
                return []
            data = tuple(payload[4:])
            if len(data) == 0:
                return []
            if len(data) == 1:
                return [("bf", data[0])]
            return [("cmd", data)]
        return []
    if cmd == LUBA_INFO_RSP:
        return [("info", tuple(payload))]
    if cmd == LUBA_SETTINGS_RSP:
        return [("settings", payload[0], payload[1])]
    return []


def luba_deframe(stream):
    """Reference deframer.  Returns (items, set_aside, pending) where pending
    is True when the stream ends inside a frame."""
    items = []
    i, n = 0, len(stream)
    while i < n:
        if not (stream[i] == LUBA_START):
            i += 1
            continue
        if i + 2 >= n:
            return items, False, True
        cmd, ln = stream[i + 1], stream[i + 2]
        if not (1 <= ln <= LUBA_MAX_LEN):
            i += 3                    # dropped; reception resumes after the length byte
            continue
        ln = ln if isinstance(ln, int) else ln.concretize()
        if i + 3 + ln >= n:
            return items, False, True
        payload = stream[i + 3:i + 3 + ln]
        chk = stream[i + 3 + ln]
        i += 4 + ln
        if not (xor_all([cmd, ln] + list(payload)) == chk):
            continue
        known = False
        for k in LUBA_KNOWN:
            if cmd == k:
                known = True
                break
        if not known:
            continue
        if luba_malformed(cmd, payload):
            return items, True, False
        items.extend(luba_items(cmd, payload))
    return items, False, False


def luba_tx_frame(frame_bytes, sendtwice, priority):
    """ADD DALI FRAME TO TX BUFFER (0x32): Y 32 07 line bits mode d0 d1 d2 d3 chk
    mode: bit 7 = send twice, bits 2..0 = priority; data big-endian, left
    aligned in four bytes."""
    d = list(frame_bytes) + [0] * (4 - len(frame_bytes))
    body = [0x32, 7, 0, 8 * len(frame_bytes), (0x80 if sendtwice else 0) | priority] + d
    return [LUBA_START] + body + [xor_all(body)]


def luba_priority(kind, twice, answer):
    """Priority field the LUBA driver documents ('standard commands and DAPC are high priority,
    others are low', following the IEC 62386-101 frame priorities: 2 for instructions a user is
    waiting for, 5 for queries and configuration): arguments are the IEC table row's kind,
    send-twice flag and answer kind - not the library's class flags.  None = not asserted."""
    if kind == "dapc":
        return 2
    if kind == "std":
        if twice is None:
            return None
        return 2 if (not twice and answer is None) else 5
    return 5


# ----------------------------------------------------------------------------------------------
# Lunatone SCI RS232: five bytes  control/status  hi  mi  lo  checksum(XOR of the four)
# status byte: bits 7..4 device id, bits 3..0 code

SCI_OK, SCI_NO, SCI_DALI8, SCI_DALI16, SCI_EDALI, SCI_DSI, SCI_DALI17, SCI_ERROR, SCI_DALI24 = range(9)


def sci_items(block):
    st, hi, mi, lo, chk = block
    if not ((st ^ hi ^ mi ^ lo) == chk):
        return []
    code = st & 0x0F
    if code == SCI_OK or code == SCI_NO:
        return [("info", st >> 4, code)]
    if code == SCI_ERROR:
        if 1 <= lo <= 5:
            return [("info", st >> 4, code)]
        return []
    if code == SCI_DALI8:
        return [("bf", lo)]
    if code == SCI_DALI16:
        return [("cmd", (mi, lo))]
    if code == SCI_DALI24:
        return [("cmd", (hi, mi, lo))]
    return []


def sci_deframe(stream):
    items = []
    n = len(stream)
    for i in range(0, n - n % 5, 5):
        items.extend(sci_items(stream[i:i + 5]))
    return items, n % 5 != 0


def sci_tx_frame(frame_bytes, sendtwice, monitor=True, identify=False, echo=True):
    """control byte: bit7 monitor enable, bit6 identify, bit5 echo, bit4 send
    twice, bits 3..0 mode (2 = 8 bit, 3 = 16 bit, 8 = 24 bit); data right
    aligned in hi/mi/lo."""
    mode = {1: SCI_DALI8, 2: SCI_DALI16, 3: SCI_DALI24}[len(frame_bytes)]
    ctrl = (0x80 if monitor else 0) | (0x40 if identify else 0) | (0x20 if echo else 0) | \
        (0x10 if sendtwice else 0) | mode
    d = list(frame_bytes)
    # NB the SCI document places a 16-bit frame in hi/mi when sending (left aligned)
    data = d + [0] * (3 - len(d))
    body = [ctrl] + data
    return body + [xor_all(body)]


# ----------------------------------------------------------------------------------------------
# Tridonic DALI USB (HID, 64-byte reports)

TRIDONIC_SEND = 0x12
TRIDONIC_MODE = {16: 3, 24: 6}


def tridonic_tx_report(seq, frame_value, bits, sendtwice):
    """cmd=0x12, seq, ctrl (0x20 = send twice), mode (3 = 16 bit, 6 = 24 bit),
    frame right aligned big-endian in 4 bytes, dtr, prio, devtype, padding to 64."""
    out = [TRIDONIC_SEND, seq, 0x20 if sendtwice else 0, TRIDONIC_MODE[bits],
           (frame_value >> 24) & 0xFF, (frame_value >> 16) & 0xFF, (frame_value >> 8) & 0xFF,
           frame_value & 0xFF, 0, 0, 0]
    return out + [0] * (64 - len(out))


# ----------------------------------------------------------------------------------------------
# hasseb (async HID driver): the 16-bit frame, big-endian, once or twice

# daliserver: request  version=2  type=0  then the frame bytes; reply  version status value pad

# legacy Tridonic USB driver: dr=0x12 sn 00 ty(03 = 16 bit) 00 ec ad cm + padding to 64

def legacy_tridonic_packet(sn, ad, cm):
    out = [0x12, sn, 0x00, 0x03, 0x00, 0x00, ad, cm]
    return out + [0] * (64 - len(out))


# legacy hasseb driver: AA 07 sn len expect_reply settling sendtwice(10 ms) a b 00
def legacy_hasseb_packet(sn, a, b, query, sendtwice):
    return [0xAA, 0x07, sn, 16, 1 if query else 0, 0, 10 if sendtwice else 0, a, b, 0]


# ATX LED DALI hat: ASCII line  <prefix><hex bytes>\n ; prefix h = 16 bit, t = 16 bit send twice,
# l = 24 bit, j = 8 bit, m = 25 bit
def atx_line(frame_bytes, bits, sendtwice):
    prefix = {8: "j", 16: "h", 24: "l", 25: "m"}[bits]
    if sendtwice and bits == 16:
        prefix = "t"
    return (prefix + "".join("%02X" % b for b in frame_bytes) + "\n").encode("ascii")
