"""Specification models of bus units (IEC 62386-102 control gear, -103 control
devices, -209 colour) and a bus that delivers the frames a sequence yields.

The models never look at the library's *class* of a command: they act on the
frame bits (plus the device type the driver would announce with ENABLE DEVICE
TYPE before a 16-bit frame whose command object carries `devicetype`).  State
is kept in plain ints or symx SymInts; comparisons on SymInts are decided by
the solver (and fork when undecided), so the same code runs concretely.
"""
from symx import E

DISABLED, ENABLED, WITHDRAWN = "DISABLED", "ENABLED", "WITHDRAWN"
MASK = 255


def _is(x, v):
    """Forking equality that is cheap when x is a plain int."""
    return x == v


class MemoryBank:
    """IEC 62386-102 9.10 memory bank: `image` maps location -> byte (int or
    SymInt); `last` = last accessible location; `holes` = set of unimplemented
    locations (concrete) or a callable(loc) -> bool; `writable` = callable
    (loc) -> 'rw' | 'lock' | None; `has_lock` = location 2 is the lock byte."""

    def __init__(self, image, last, holes=(), writable=None, has_lock=False,
                 unlock_value=0x55, stuck_lock=False):
        self.image = dict(image)
        self.last = last
        self.holes = holes
        self.writable = writable or (lambda loc: None)
        self.has_lock = has_lock
        self.unlock_value = unlock_value
        self.stuck_lock = stuck_lock
        self.writes = []            # (location, value) accepted writes

    def implemented(self, loc):
        if callable(self.holes):
            if self.holes(loc):
                return False
        elif loc in self.holes:
            return False
        if loc not in self.image:
            return False
        return bool(E.le(loc, self.last)) if not isinstance(self.last, int) or not isinstance(loc, int) \
            else loc <= self.last

    def read(self, loc):
        if not self.implemented(loc):
            return None
        return self.image[loc]

    def write(self, loc, value):
        if not self.implemented(loc):
            return None
        if self.has_lock and loc == 2:
            if self.stuck_lock:
                return value        # answers, but the byte does not change
            self.image[2] = value
            self.writes.append((2, value))
            return value
        w = self.writable(loc)
        if w is None:
            return None
        if w == "lock":
            if not (self.image[2] == self.unlock_value):
                return None
        self.image[loc] = value
        self.writes.append((loc, value))
        return value


class Unit:
    """A control gear (kind='gear', 16-bit frames) or control device
    (kind='device', 24-bit frames)."""

    def __init__(self, kind="gear", short=MASK, dtr0=0, dtr1=0, dtr2=0, groups=0,
                 devtypes=(), banks=None, random=0, draw=None, stores_address=True,
                 dtr0_stuck=False, verifies=True):
        self.kind = kind
        self.verifies = verifies     # answers VERIFY SHORT ADDRESS (a unit may store the address and stay silent)
        self.short = short
        self.dtr0, self.dtr1, self.dtr2 = dtr0, dtr1, dtr2
        self.groups = groups
        self.devtypes = list(devtypes)
        self.banks = banks or {}
        self.random = random
        self.search = [0xFF, 0xFF, 0xFF]
        self.init = DISABLED
        self.draw = draw
        self.stores_address = stores_address
        self.dtr0_stuck = dtr0_stuck
        self.write_enable = False
        self.dtr0_skip = ()          # indices of accepted memory writes after which DTR0 is NOT incremented
        self.nmemwrites = 0
        self.dt_iter = None
        self.level = 254
        # DT8 colour temperature
        self.tc_temp = 0xFFFF
        self.tc = 0xFFFF
        self.tc_limits = {0: 0xFFFF, 1: 0xFFFF, 2: 0xFFFF, 3: 0xFFFF}
        self.colour_values = {}
        # 103 instances: {number: Instance}
        self.instances = {}
        self.status = 0
        self.quiescent = False
        self.log = []

    # ---- addressing --------------------------------------------------------
    def _addressed(self, a7, group_bits):
        """a7 = the 7 address bits (0AAAAAA / 100AAAA|10AAAAA / 1111111 / 1111110)."""
        if a7 == 0x7F:
            return True
        if a7 == 0x7E:
            return bool(_is(self.short, MASK))
        if (a7 >> 6) == 0:
            return bool(_is(self.short, a7))
        if self.kind == "gear":
            if (a7 >> 4) == 0b100:
                return bool(E.truth((self.groups >> (a7 & 15)) & 1))
            return False
        if (a7 >> 5) == 0b10:
            return bool(E.truth((self.groups >> (a7 & 31)) & 1))
        return False

    def search_addr(self):
        return (self.search[0] << 16) | (self.search[1] << 8) | self.search[2]

    # ---- frame reception ---------------------------------------------------------
    def receive(self, fv, width, dt=0, twice=False):
        """Returns the answer byte (int/SymInt) or None."""
        if self.kind == "gear":
            if width != 16:
                return None
            return self._gear(fv, dt, twice)
        if width != 24:
            return None
        return self._device(fv, twice)

    def _we_guard(self, keeps):
        if not keeps:
            self.write_enable = False

    # ---- shared memory / DTR behaviour
    def _read_memory(self):
        bank = self.banks.get(self.dtr1) if isinstance(self.dtr1, int) else self._bank_sym()
        if bank is None:
            return None
        loc = self.dtr0
        if not isinstance(loc, int):
            loc = loc.concretize()
        r = bank.read(loc)
        if not self.dtr0_stuck:
            self.dtr0 = loc + 1 if loc < 255 else 255
        return r

    def _bank_sym(self):
        for k, b in self.banks.items():
            if self.dtr1 == k:
                return b
        return None

    def _write_memory(self, value, reply):
        if not self.write_enable:
            return None
        bank = self.banks.get(self.dtr1) if isinstance(self.dtr1, int) else self._bank_sym()
        if bank is None:
            return None
        loc = self.dtr0
        if not isinstance(loc, int):
            loc = loc.concretize()
        r = bank.write(loc, value)
        i = self.nmemwrites
        self.nmemwrites += 1
        skip = False
        for k in self.dtr0_skip:
            if k == i:
                skip = True
        if not self.dtr0_stuck and not skip:
            self.dtr0 = loc + 1 if loc < 255 else 255
        return r if reply else None

    # ---- control gear (102 + 209) --------------------------------------------------
    def _gear(self, fv, dt, twice):
        hi = (fv >> 8) & 0xFF
        lo = fv & 0xFF
        # special commands: first byte 101CCCC1 / 110CCCC1
        if hi in (0xA1, 0xA3, 0xA5, 0xA7, 0xA9, 0xAB, 0xAD, 0xB1, 0xB3, 0xB5, 0xB7, 0xB9, 0xBB,
                  0xC1, 0xC3, 0xC5, 0xC7, 0xC9):
            return self._gear_special(hi, lo, twice)
        a7 = hi >> 1
        if (hi & 1) == 0:
            self._we_guard(False)
            self.dt_iter = None
            if self._addressed(a7, 16):
                self.level = lo
            return None
        keeps_we = lo in (0x98, 0x9C, 0x9D)
        self._we_guard(keeps_we)
        if lo != 0xA7:
            self.dt_iter = None
        if not self._addressed(a7, 16):
            return None
        # configuration commands need to arrive twice
        if 0x20 <= lo <= 0x81 and not twice:
            return None
        if lo >= 0xE0 and lo != 0xFF:
            return self._gear_extended(lo, dt, twice)
        if 0x60 <= lo <= 0x6F:
            self.groups = self.groups | (1 << (lo & 15))
        elif 0x70 <= lo <= 0x7F:
            self.groups = self.groups & ~(1 << (lo & 15))
        elif lo == 0x80:
            d = self.dtr0
            if _is(d, MASK):
                self.short = MASK
            elif ((d >> 7) & 1) == 0 and (d & 1) == 1:
                self.short = (d >> 1) & 63
        elif lo == 0x81:
            self.write_enable = True
        elif lo == 0x91:
            return 0xFF
        elif lo == 0x96:
            return 0xFF if _is(self.short, MASK) else None
        elif lo == 0x98:
            return self.dtr0
        elif lo == 0x9C:
            return self.dtr1
        elif lo == 0x9D:
            return self.dtr2
        elif lo == 0x99:
            if len(self.devtypes) == 0:
                return 254
            if len(self.devtypes) == 1:
                return self.devtypes[0]
            self.dt_iter = 0
            return 255
        elif lo == 0xA7:
            if self.dt_iter is None:
                return None
            if self.dt_iter < len(self.devtypes):
                v = self.devtypes[self.dt_iter]
                self.dt_iter += 1
                return v
            self.dt_iter = None
            return 254
        elif lo == 0xA0:
            return self.level
        elif lo == 0xC0:
            return self.groups & 0xFF
        elif lo == 0xC1:
            return (self.groups >> 8) & 0xFF
        elif lo == 0xC2:
            return (self.random >> 16) & 0xFF
        elif lo == 0xC3:
            return (self.random >> 8) & 0xFF
        elif lo == 0xC4:
            return self.random & 0xFF
        elif lo == 0xC5:
            return self._read_memory()
        return None

    def _gear_special(self, hi, lo, twice):
        keeps_we = hi in (0xA3, 0xC3, 0xC5, 0xC7, 0xC9)
        self._we_guard(keeps_we)
        self.dt_iter = None
        if hi == 0xA3:
            self.dtr0 = lo
        elif hi == 0xC3:
            self.dtr1 = lo
        elif hi == 0xC5:
            self.dtr2 = lo
        elif hi == 0xC7:
            return self._write_memory(lo, True)
        elif hi == 0xC9:
            return self._write_memory(lo, False)
        elif hi == 0xA1:
            if _is(lo, 0):
                self.init = DISABLED
        elif hi == 0xA5:
            if not twice:
                return None
            if _is(lo, 0):
                self.init = ENABLED
            elif _is(lo, 0xFF):
                if _is(self.short, MASK):
                    self.init = ENABLED
            elif ((lo >> 7) & 1) == 0 and (lo & 1) == 1:
                if _is(self.short, (lo >> 1) & 63):
                    self.init = ENABLED
        elif self.init == DISABLED:
            return None
        elif hi == 0xA7:
            if twice and _is(lo, 0):
                self.random = self.draw(self)
        elif hi == 0xA9:
            if self.init == ENABLED and _is(lo, 0):
                if self.random <= self.search_addr():
                    return 0xFF
        elif hi == 0xAB:
            if _is(lo, 0) and self.init == ENABLED and _is(self.random, self.search_addr()):
                self.init = WITHDRAWN
        elif hi == 0xB1:
            self.search[0] = lo
        elif hi == 0xB3:
            self.search[1] = lo
        elif hi == 0xB5:
            self.search[2] = lo
        elif hi == 0xB7:
            if _is(self.random, self.search_addr()) and self.stores_address:
                if _is(lo, 0xFF):
                    self.short = MASK
                elif ((lo >> 7) & 1) == 0 and (lo & 1) == 1:
                    self.short = (lo >> 1) & 63
        elif hi == 0xB9:
            if ((lo >> 7) & 1) == 0 and (lo & 1) == 1 and _is(self.short, (lo >> 1) & 63) and self.verifies:
                return 0xFF
        elif hi == 0xBB:
            if _is(self.random, self.search_addr()):
                return MASK if _is(self.short, MASK) else ((self.short << 1) | 1)
        return None

    def _gear_extended(self, lo, dt, twice):
        """Application extended commands: only after ENABLE DEVICE TYPE of a
        type this unit implements."""
        if dt == 0 or dt not in self.devtypes:
            return None
        if dt != 8:
            return None
        if lo == 0xE7:                       # SET TEMPORARY COLOUR TEMPERATURE Tc
            self.tc_temp = (self.dtr1 << 8) | self.dtr0
        elif lo == 0xE2:                     # ACTIVATE
            if not _is(self.tc_temp, 0xFFFF):
                self.tc = self.tc_temp
            self.tc_temp = 0xFFFF
        elif lo == 0xF2:                     # STORE COLOUR TEMPERATURE Tc LIMIT
            if not twice:
                return None
            sel = self.dtr2
            for k in (0, 1, 2, 3):
                if _is(sel, k):
                    self.tc_limits[k] = (self.dtr1 << 8) | self.dtr0
        elif lo == 0xFA:                     # QUERY COLOUR VALUE
            sel = self.dtr0
            v = None
            for k, val in self.colour_values.items():
                if _is(sel, k):
                    v = val
                    break
            if v is None:
                return MASK
            self.dtr0 = v & 0xFF
            self.dtr1 = (v >> 8) & 0xFF
            return (v >> 8) & 0xFF
        return None

    # ---- control devices (103) -----------------------------------------------------------
    def _device(self, fv, twice):
        if ((fv >> 16) & 1) == 0:
            return None                       # event message
        b1 = (fv >> 16) & 0xFF
        ib = (fv >> 8) & 0xFF
        op = fv & 0xFF
        if b1 == 0xC1:
            keeps_we = ib in (0x20, 0x21, 0x30, 0x31, 0x32)
            self._we_guard(keeps_we)
            if ib == 0x30:
                self.dtr0 = op
            elif ib == 0x31:
                self.dtr1 = op
            elif ib == 0x32:
                self.dtr2 = op
            elif ib == 0x20:
                return self._write_memory(op, True)
            elif ib == 0x21:
                return self._write_memory(op, False)
            return None
        if b1 == 0xC7:
            self._we_guard(True)
            self.dtr1, self.dtr0 = ib, op
            return None
        if b1 == 0xC9:
            self._we_guard(True)
            self.dtr2, self.dtr1 = ib, op
            return None
        a7 = b1 >> 1
        keeps_we = ib == 0xFE and op in (0x36, 0x37, 0x38)
        self._we_guard(keeps_we)
        if not self._addressed(a7, 32):
            return None
        if ib == 0xFE:
            if 0x00 <= op <= 0x21 and not twice:
                return None
            if op == 0x15:
                self.write_enable = True
            elif op == 0x1D:
                self.quiescent = True
            elif op == 0x1E:
                self.quiescent = False
            elif op == 0x30:
                return self.status
            elif op == 0x35:
                return len(self.instances) if not hasattr(self, "n_instances") else self.n_instances
            elif op == 0x36:
                return self.dtr0
            elif op == 0x37:
                return self.dtr1
            elif op == 0x38:
                return self.dtr2
            elif op == 0x3C:
                return self._read_memory()
            elif op == 0x40:
                return 0xFF if self.quiescent else None
            return None
        # instance commands: only "instance number" addressing is modelled
        if (ib >> 5) != 0:
            return None
        inst = None
        for n, i in self.instances.items():
            if _is(ib & 31, n):
                inst = i
                break
        if inst is None:
            return None
        if 0x61 <= op <= 0x68 and not twice:
            return None
        return inst.receive(self, op)


class Instance:
    """IEC 62386-103 instance: type, enabled flag, event scheme, 24-bit event
    filter, resolution and input value (for QUERY INPUT VALUE / LATCH)."""

    def __init__(self, itype=0, enabled=True, scheme=0, filt=0, resolution=8, value=0):
        self.itype = itype
        self.enabled = enabled
        self.scheme = scheme
        self.filt = filt
        self.resolution = resolution
        self.value = value          # left-aligned in ceil(resolution/8) bytes, repeated per the standard
        self.latch_pos = None

    def input_bytes(self):
        """The byte sequence QUERY INPUT VALUE / QUERY INPUT VALUE LATCH deliver:
        the value MSB first, the last byte padded by repeating the value's
        leading bits (103 9.7.2)."""
        raise NotImplementedError

    def receive(self, unit, op):
        if op == 0x62:
            self.enabled = True
        elif op == 0x63:
            self.enabled = False
        elif op == 0x67:
            if unit.dtr0 <= 4:
                self.scheme = unit.dtr0
        elif op == 0x68:
            self.filt = (unit.dtr2 << 16) | (unit.dtr1 << 8) | unit.dtr0
        elif op == 0x80:
            return self.itype
        elif op == 0x81:
            return self.resolution
        elif op == 0x86:
            return 0xFF if self.enabled else None
        elif op == 0x8B:
            return self.scheme
        elif op == 0x90:
            return self.filt & 0xFF
        elif op == 0x91:
            return (self.filt >> 8) & 0xFF
        elif op == 0x92:
            return (self.filt >> 16) & 0xFF
        elif op == 0x8C:
            self.latch_pos = 1
            return self.bytes_[0]
        elif op == 0x8D:
            if self.latch_pos is None or self.latch_pos >= len(self.bytes_):
                return None
            v = self.bytes_[self.latch_pos]
            self.latch_pos += 1
            return v
        return None


class Bus:
    """Delivers the commands a sequence yields to the units the way a driver
    does: ENABLE DEVICE TYPE first when the command object carries a device
    type, the frame itself (twice if the command says so), and the answers
    of all units combined into None / BackwardFrame / BackwardFrameError."""

    def __init__(self, units, fault=None, max_commands=2000):
        self.units = units
        self.fault = fault          # callable(n, cmd, raw) -> raw
        self.frames = []            # (value, width) of every frame put on the bus
        self.commands = []          # command objects yielded
        self.max_commands = max_commands
        self.n = 0

    def deliver(self, fv, width, dt=0, twice=False):
        self.frames.append((fv, width))
        if twice:
            self.frames.append((fv, width))
        answers = []
        for u in self.units:
            a = u.receive(fv, width, dt, twice)
            if a is not None:
                answers.append(a)
        return answers

    def transact(self, cmd):
        import dali.frame as F
        self.commands.append(cmd)
        width = len(cmd.frame)
        fv = cmd.frame.as_integer
        dt = 0
        if width == 16 and cmd.devicetype != 0:
            dt = cmd.devicetype
            self.deliver(0xC100 | dt, 16)
        answers = self.deliver(fv, width, dt, bool(cmd.sendtwice))
        if not answers:
            raw = None
        elif len(answers) == 1:
            raw = F.BackwardFrame(answers[0])
        else:
            raw = F.BackwardFrameError(0xFF)
        if self.fault is not None:
            raw = self.fault(self.n, cmd, raw)
        self.n += 1
        if cmd.response is None:
            return None
        return cmd.response(raw)

    def run(self, gen):
        """Drive a sequence to completion.  Returns ('ok', value) or
        ('exc', exception)."""
        import dali.command as C
        resp = None
        try:
            while True:
                item = gen.send(resp)
                resp = None
                if isinstance(item, C.Command):
                    if len(self.commands) >= self.max_commands:
                        gen.close()
                        return "nonterminating", None
                    resp = self.transact(item)
        except StopIteration as e:
            return "ok", e.value
        except Exception as e:  # noqa
            return "exc", e
