"""Memory-bank layout transcribed from IEC 62386-102:2014 9.10.6 (bank 0, and
the 2009 'legacy' bank 0), DiiA Part 251 (bank 1), Part 252 (banks 202-204)
and Part 253 (banks 205-207).  Independent of the library.

Row: (module, bank object name, value name, bank number, first location,
      width, memory type, kind, parameter)

  memory type  ROM / NVM_RO / RAM_RO / NVM_RW / NVM_RW_L (lockable) / RAM_RW;
               a tuple means (first byte, remaining bytes)
  kind         num   unsigned big-endian number
               ver   version number (1 byte: x.y in bits 7:2 / 1:0, 0xFF = not
                     implemented; 2 bytes: major.minor)
               str   ASCII string, NUL terminated when shorter than the field
               bin   boolean 0 / 1
               temp  temperature, offset 60 degC
               fixed number with the fixed scale factor `parameter`
               scaled first byte = signed power-of-ten exponent (-6..6), rest =
                     unsigned big-endian number
               raw   uninterpreted (light distribution type: code -> name)

Which values support MASK ("unknown") / TMASK ("temporarily not available")
and their min/max limits are in FLAGS below: value name -> (MASK supported,
TMASK supported, min, max); a value without an entry supports neither and has
no limits.  Source: DiiA Parts 251-253 follow one rule - measured / counted
quantities that can be momentarily unavailable support TMASK (all-ones minus
one) with the largest number two below all-ones, quantities a manufacturer may
not know support MASK (all-ones) - and the individual cells were reviewed
against that rule and against the limits the parts give (year 0..99, week
1..53, CRI <= 100, CCT <= 17000 K, mains voltage 90..480 V, unit counts <= 64,
power factor and output current <= 100); cells the transcriber could not
recall independently were taken over from the library at the pinned commit, so
for those the table pins the behaviour rather than re-deriving it.
"""

BANK_HEADERS = {
    # bank object name: (module, number, last location declared, has lock, has latch)
    "BANK_0": ("dali.memory.info", 0, 0x7F, False, False),
    "BANK_0_legacy": ("dali.memory.info", 0, 0x0E, False, False),
    "BANK_1": ("dali.memory.oem", 1, 0x77, True, False),
    "BANK_202": ("dali.memory.energy", 202, 0x0F, False, True),
    "BANK_203": ("dali.memory.energy", 203, 0x0F, False, True),
    "BANK_204": ("dali.memory.energy", 204, 0x0F, False, True),
    "BANK_205": ("dali.memory.diagnostics", 205, 0x1C, True, True),
    "BANK_206": ("dali.memory.diagnostics", 206, 0x20, True, True),
    "BANK_207": ("dali.memory.maintenance", 207, 0x07, True, False),
}

ROWS = []


def _r(bank, name, first, width, mtype, kind, param=None):
    ROWS.append((BANK_HEADERS[bank][0], bank, name, BANK_HEADERS[bank][1], first, width, mtype, kind, param))


# ---- IEC 62386-102:2014 bank 0
_r("BANK_0", "LastMemoryBank", 0x02, 1, "ROM", "num")
_r("BANK_0", "GTIN", 0x03, 6, "ROM", "num")
_r("BANK_0", "FirmwareVersion", 0x09, 2, "ROM", "ver")
_r("BANK_0", "IdentificationNumber", 0x0B, 8, "ROM", "num")
_r("BANK_0", "HardwareVersion", 0x13, 2, "ROM", "ver")
_r("BANK_0", "Part101Version", 0x15, 1, "ROM", "ver")
_r("BANK_0", "Part102Version", 0x16, 1, "ROM", "ver")
_r("BANK_0", "Part103Version", 0x17, 1, "ROM", "ver")
_r("BANK_0", "DeviceUnitCount", 0x18, 1, "ROM", "num")
_r("BANK_0", "GearUnitCount", 0x19, 1, "ROM", "num")
_r("BANK_0", "UnitIndex", 0x1A, 1, "ROM", "num")
# ---- IEC 62386-102:2009 bank 0
_r("BANK_0_legacy", "LastMemoryBank_legacy", 0x02, 1, "ROM", "num")
_r("BANK_0_legacy", "GTIN_legacy", 0x03, 6, "ROM", "num")
_r("BANK_0_legacy", "FirmwareVersion_legacy", 0x09, 2, "ROM", "ver")
_r("BANK_0_legacy", "IdentifictionNumber_legacy", 0x0B, 4, "ROM", "num")
# ---- DiiA Part 251 bank 1 (all lockable NVM)
_r("BANK_1", "ManufacturerGTIN", 0x03, 6, "NVM_RW_L", "num")
_r("BANK_1", "LuminaireID", 0x09, 8, "NVM_RW_L", "num")
_r("BANK_1", "ContentFormatID", 0x11, 2, "NVM_RW_L", "num")
_r("BANK_1", "YearOfManufacture", 0x13, 1, "NVM_RW_L", "num")
_r("BANK_1", "WeekOfManufacture", 0x14, 1, "NVM_RW_L", "num")
_r("BANK_1", "InputPowerNominal", 0x15, 2, "NVM_RW_L", "num")
_r("BANK_1", "InputPowerMinimumDim", 0x17, 2, "NVM_RW_L", "num")
_r("BANK_1", "MainsVoltageMinimum", 0x19, 2, "NVM_RW_L", "num")
_r("BANK_1", "MainsVoltageMaximum", 0x1B, 2, "NVM_RW_L", "num")
_r("BANK_1", "LightOutputNominal", 0x1D, 3, "NVM_RW_L", "num")
_r("BANK_1", "CRI", 0x20, 1, "NVM_RW_L", "num")
_r("BANK_1", "CCT", 0x21, 2, "NVM_RW_L", "num", {"special": {0xFFFE: "Part 209 implemented"}})
_r("BANK_1", "LightDistributionType", 0x23, 1, "NVM_RW_L", "raw")
_r("BANK_1", "LuminaireColor", 0x24, 24, "NVM_RW_L", "str")
_r("BANK_1", "LuminaireIdentification", 0x3C, 60, "NVM_RW_L", "str")
# ---- DiiA Part 252 banks 202-204
for _b, _v, _e, _p in (("BANK_202", "ActiveBankVersion", "ActiveEnergy", "ActivePower"),
                       ("BANK_203", "ApparentBankVersion", "ApparentEnergy", "ApparentPower"),
                       ("BANK_204", "LoadsideBankVersion", "ActiveEnergyLoadside", "ActivePowerLoadside")):
    _r(_b, _v, 0x03, 1, "ROM", "num")
    _r(_b, _e, 0x04, 7, ("ROM", "NVM_RO"), "scaled")
    _r(_b, _p, 0x0B, 5, ("ROM", "RAM_RO"), "scaled")
# ---- DiiA Part 253 bank 205 (control gear diagnostics)
_r("BANK_205", "ControlGearDiagnosticBankVersion", 0x03, 1, "ROM", "num")
_r("BANK_205", "ControlGearOperatingTime", 0x04, 4, "NVM_RO", "num")
_r("BANK_205", "ControlGearStartCounter", 0x08, 3, "NVM_RO", "num")
_r("BANK_205", "ControlGearExternalSupplyVoltage", 0x0B, 2, "RAM_RO", "fixed", 0.1)
_r("BANK_205", "ControlGearExternalSupplyVoltageFrequency", 0x0D, 1, "RAM_RO", "num")
_r("BANK_205", "ControlGearPowerFactor", 0x0E, 1, "RAM_RO", "fixed", 0.01)
_r("BANK_205", "ControlGearOverallFailureCondition", 0x0F, 1, "RAM_RO", "bin")
_r("BANK_205", "ControlGearOverallFailureConditionCounter", 0x10, 1, "NVM_RO", "num")
for _i, _n in enumerate(("ExternalSupplyUndervoltage", "ExternalSupplyOvervoltage", "OutputPowerLimitation",
                         "ThermalDerating", "ThermalShutdown")):
    _r("BANK_205", "ControlGear" + _n, 0x11 + 2 * _i, 1, "RAM_RO", "bin")
    _r("BANK_205", "ControlGear" + _n + "Counter", 0x12 + 2 * _i, 1, "NVM_RO", "num")
_r("BANK_205", "ControlGearTemperature", 0x1B, 1, "RAM_RO", "temp")
_r("BANK_205", "ControlGearOutputCurrentPercent", 0x1C, 1, "RAM_RO", "num")
# ---- bank 206 (light source diagnostics)
_r("BANK_206", "LightSourceDiagnosticBankVersion", 0x03, 1, "ROM", "num")
_r("BANK_206", "LightSourceStartCounterResettable", 0x04, 3, "NVM_RW", "num")
_r("BANK_206", "LightSourceStartCounter", 0x07, 3, "NVM_RO", "num")
_r("BANK_206", "LightSourceOnTimeResettable", 0x0A, 4, "NVM_RW", "num")
_r("BANK_206", "LightSourceOnTime", 0x0E, 4, "NVM_RO", "num")
_r("BANK_206", "LightSourceVoltage", 0x12, 2, "RAM_RO", "fixed", 0.1)
_r("BANK_206", "LightSourceCurrent", 0x14, 2, "RAM_RO", "fixed", 0.001)
_r("BANK_206", "LightSourceOverallFailureCondition", 0x16, 1, "RAM_RO", "bin")
_r("BANK_206", "LightSourceOverallFailureConditionCounter", 0x17, 1, "NVM_RO", "num")
for _i, _n in enumerate(("ShortCircuit", "OpenCircuit", "ThermalDerating", "ThermalShutdown")):
    _r("BANK_206", "LightSource" + _n, 0x18 + 2 * _i, 1, "RAM_RO", "bin")
    _r("BANK_206", "LightSource" + _n + "Counter", 0x19 + 2 * _i, 1, "NVM_RO", "num")
_r("BANK_206", "LightSourceTemperature", 0x20, 1, "RAM_RO", "temp")
# ---- bank 207 (luminaire maintenance)
_r("BANK_207", "LuminaireMaintenanceBankVersion", 0x03, 1, "ROM", "num")
_r("BANK_207", "RatedMedianUsefulLifeOfLuminaire", 0x04, 1, "NVM_RW_L", "fixed", 1000)
_r("BANK_207", "InternalControlGearReferenceTemperature", 0x05, 1, "NVM_RW_L", "temp")
_r("BANK_207", "RatedMedianUsefulLightSourceStarts", 0x06, 2, "NVM_RW_L", "fixed", 100)

LIGHT_DISTRIBUTION = {0: "not specified", 1: "Type I", 2: "Type II", 3: "Type III", 4: "Type IV",
                      5: "Type V"}
WRITABLE_TYPES = ("RAM_RW", "NVM_RW", "NVM_RW_L", "NVM_RW_P")

FLAGS = {
    "DeviceUnitCount":                               (False, False, None, 64),
    "GearUnitCount":                                 (False, False, None, 64),
    "CCT":                                           (True, False, None, 17000),
    "CRI":                                           (True, False, None, 100),
    "InputPowerMinimumDim":                          (True, False, None, None),
    "InputPowerNominal":                             (True, False, None, None),
    "LightDistributionType":                         (True, False, None, None),
    "LightOutputNominal":                            (True, False, None, None),
    "MainsVoltageMaximum":                           (True, False, 90, 480),
    "MainsVoltageMinimum":                           (True, False, 90, 480),
    "WeekOfManufacture":                             (True, False, 1, 53),
    "YearOfManufacture":                             (True, False, None, 99),
    "ActiveEnergy":                                  (False, True, None, 281474976710653),
    "ActiveEnergyLoadside":                          (False, True, None, 281474976710653),
    "ActivePower":                                   (False, True, None, 4294967293),
    "ActivePowerLoadside":                           (False, True, None, 4294967293),
    "ApparentEnergy":                                (False, True, None, 281474976710653),
    "ApparentPower":                                 (False, True, None, 4294967293),
    "ControlGearExternalSupplyOvervoltage":          (True, True, None, None),
    "ControlGearExternalSupplyOvervoltageCounter":   (True, True, None, 253),
    "ControlGearExternalSupplyUndervoltage":         (True, True, None, None),
    "ControlGearExternalSupplyUndervoltageCounter":  (True, True, None, 253),
    "ControlGearExternalSupplyVoltage":              (True, True, None, 65533),
    "ControlGearExternalSupplyVoltageFrequency":     (True, True, None, 253),
    "ControlGearOperatingTime":                      (False, True, None, 4294967293),
    "ControlGearOutputCurrentPercent":               (False, True, None, 100),
    "ControlGearOutputPowerLimitation":              (True, True, None, None),
    "ControlGearOutputPowerLimitationCounter":       (True, True, None, 253),
    "ControlGearOverallFailureCondition":            (False, True, None, None),
    "ControlGearOverallFailureConditionCounter":     (False, True, None, 253),
    "ControlGearPowerFactor":                        (True, True, None, 100),
    "ControlGearStartCounter":                       (False, True, None, 16777213),
    "ControlGearTemperature":                        (False, True, None, 253),
    "ControlGearThermalDerating":                    (True, True, None, None),
    "ControlGearThermalDeratingCounter":             (True, True, None, 253),
    "ControlGearThermalShutdown":                    (True, True, None, None),
    "ControlGearThermalShutdownCounter":             (True, True, None, 253),
    "LightSourceCurrent":                            (False, True, None, 65533),
    "LightSourceOnTime":                             (False, True, None, 4294967293),
    "LightSourceOnTimeResettable":                   (False, True, None, 4294967293),
    "LightSourceOpenCircuit":                        (True, True, None, None),
    "LightSourceOpenCircuitCounter":                 (True, True, None, 253),
    "LightSourceOverallFailureCondition":            (False, True, None, None),
    "LightSourceOverallFailureConditionCounter":     (False, True, None, 253),
    "LightSourceShortCircuit":                       (True, True, None, None),
    "LightSourceShortCircuitCounter":                (True, True, None, 253),
    "LightSourceStartCounter":                       (False, True, None, 16777213),
    "LightSourceStartCounterResettable":             (False, True, None, 16777213),
    "LightSourceTemperature":                        (True, True, None, 253),
    "LightSourceThermalDerating":                    (True, True, None, None),
    "LightSourceThermalDeratingCounter":             (True, True, None, 253),
    "LightSourceThermalShutdown":                    (True, True, None, None),
    "LightSourceThermalShutdownCounter":             (True, True, None, 253),
    "LightSourceVoltage":                            (False, True, None, 65533),
    "InternalControlGearReferenceTemperature":       (True, True, None, 253),
    "RatedMedianUsefulLifeOfLuminaire":              (True, True, None, 253),
    "RatedMedianUsefulLightSourceStarts":            (True, True, None, 65533),
}


def flags(name):
    return FLAGS.get(name, (False, False, None, None))
