#!/bin/sh
# Build the overlay venv (offline): /venv's packages + z3-solver + cvc5.
set -e
HERE="$(cd "$(dirname "$0")" && pwd)"
rm -rf "$HERE/.venv"
/venv/bin/python -m venv "$HERE/.venv"
SP="$HERE/.venv/lib/python3.12/site-packages"
echo "import site; site.addsitedir('/venv/lib/python3.12/site-packages')" > "$SP/_base.pth"
PIP_NO_INDEX=1 "$HERE/.venv/bin/pip" install --no-index --find-links /opt/veriftools/wheels z3-solver cvc5 jsonschema
"$HERE/.venv/bin/python" -c "import z3, cvc5, dali; print('ok', z3.get_version_string())"
