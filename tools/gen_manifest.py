"""Regenerate MANIFEST.json from harness.MODULES / META (keeps it in sync)."""
import importlib
import json
import os
import sys

VERIF = os.path.dirname(os.path.dirname(os.path.abspath(__file__)))
sys.path.insert(0, VERIF)
sys.path.insert(0, "/repo")
import harness  # noqa: E402

props = [json.loads(l) for l in open(os.path.join(VERIF, "properties.jsonl"))]
NA = getattr(harness, "NOT_APPLICABLE", {})
checks, na = [], []
for p in props:
    pid = p["id"]
    modname = harness.MODULES.get(pid)
    if modname is None:
        na.append({"property_id": pid,
                   "reason": NA.get(pid, "check not built yet (see DESIGN.md section 5 for the planned harness)")})
        continue
    meta = importlib.import_module(modname).META
    checks.append({
        "property_id": pid,
        "quick_cmd": "./check %s --tier quick" % pid,
        "thorough_cmd": "./check %s --tier thorough" % pid,
        "evidence_file": "/verif/evidence/%s.json" % pid,
        "replay_cmd_template": "./check %s --replay {path}" % pid,
        "engine": "symx",
        "level_claimed": {
            "category": "other",
            "text": meta["level_text"],
            "design_ref": "DESIGN.md section 5, %s" % pid,
        },
        "level_note": meta["level_note"],
        "technique": meta.get("technique", "bounded symbolic execution of the real Python code "
                                           "(eager-forking z3 bit-vector proxies), SMT-decided obligations"),
    })
man = {
    "version": 1,
    "setup_cmd": "sh ./setup.sh",
    "hooks": {
        "guard": "PYTHON_DALI_VERIF",
        "enable": "no source hooks: all instrumentation is injected into module namespaces by the "
                  "checks at run time; /repo is imported from its working tree (VERIF_REPO overrides "
                  "the path for self-tests)",
        "baseline_off_cmd": "cd /repo && /venv/bin/python -m pytest -ra -q -p no:cacheprovider --timeout=900 --continue-on-collection-errors",
        "source_commits": [],
        "add_only": True,
    },
    "engines": [{
        "name": "symx",
        "path": "/verif/symx",
        "serves_properties": [c["property_id"] for c in checks],
        "kind_free_text": "symbolic execution of the real Python code: SymInt proxies wrap z3 bit-vector "
                          "terms, every comparison is a solver query with both outcomes explored, "
                          "obligations are unsat queries, every path is cross-validated concretely and "
                          "counterexamples are replayed on the un-instrumented code; cvc5 re-decides "
                          "dumped obligations",
    }],
    "checks": checks,
    "not_applicable": na,
    "notes": "Exit codes: 0 = all obligations discharged within the stated bounds (KNOWN-FINDING lines "
             "for listed findings); 1 = replay-confirmed VIOLATION; 2 = inconclusive (never reported as a pass).",
}
json.dump(man, open(os.path.join(VERIF, "MANIFEST.json"), "w"), indent=1)
print("checks:", [c["property_id"] for c in checks], "n/a:", [n["property_id"] for n in na])
