"""Evaluate a seeded change produced by a sub-agent and file it under /verif/seeded/.

usage: tools/seed_eval.py C07 1 [--tier quick] [--also C02 ...]

Steps (all in a scratch copy of /repo outside /repo and /verif, removed afterwards):
  1. the patch applies to the current /repo tree,
  2. the existing suite still passes with it,
  3. the demonstration fails with it and passes without it,
  4. the property's check (and any --also checks) is run against the patched copy
     (VERIF_REPO=<scratch>): exit 1 = caught.
Only if 1-3 hold is the seed kept: /verif/seeded/<ID>-<n>/{patch.diff,demo.py,notes.txt,meta.json}.
"""
import argparse
import json
import os
import shutil
import subprocess
import sys
import tempfile
import time

VERIF = os.path.dirname(os.path.dirname(os.path.abspath(__file__)))


def sh(cmd, cwd=None, env=None, timeout=3000):
    p = subprocess.run(cmd, shell=True, cwd=cwd, env=env, capture_output=True, text=True, timeout=timeout)
    return p.returncode, p.stdout + p.stderr


def main():
    ap = argparse.ArgumentParser()
    ap.add_argument("prop")
    ap.add_argument("n")
    ap.add_argument("--tier", default="quick")
    ap.add_argument("--also", nargs="*", default=[])
    ap.add_argument("--src", default=None)
    a = ap.parse_args()
    root = os.environ.get("SEED_ROOT", "/tmp/seed-")
    src = a.src or "%s%s/_seed/%s" % (root, a.prop, a.n)
    name = "%s-%s" % (a.prop, a.n)
    patch = os.path.join(src, "patch.diff")
    demos = [f for f in os.listdir(src) if f.startswith("demo") or f.startswith("test_")]
    if not os.path.exists(patch) or not demos:
        print(name, "incomplete seed directory", os.listdir(src))
        return 2
    demo = os.path.join(src, sorted(demos)[0])
    # everything happens in the sub-agent's own scratch worktree (demos may insist on that path)
    tmp = "%s%s" % (root, a.prop)
    evtmp = tempfile.mkdtemp(prefix="seedeval-")
    meta = {"seed": name, "property": a.prop, "ran": []}
    try:
        sh("git checkout -- dali", cwd=tmp)
        rc, out = sh("git apply --whitespace=nowarn %s" % patch, cwd=tmp)
        meta["patch_applies"] = rc == 0
        if rc != 0:
            print(name, "patch does not apply:", out[-300:])
            return 2
        env = dict(os.environ, PYTHONPATH=tmp, PYTHONDONTWRITEBYTECODE="1")
        rc, out = sh("/venv/bin/python -m pytest -q -p no:cacheprovider --timeout=900 "
                     "--continue-on-collection-errors 2>&1 | tail -3", cwd=tmp, env=env)
        meta["suite_with_change"] = out.strip().splitlines()[-1] if out.strip() else ""
        suite_ok = "110 passed" in out and "failed" not in out.split("110 passed")[-1]
        meta["ran"].append("existing suite in the scratch worktree with the patch applied: %s"
                           % meta["suite_with_change"])
        runner = "/venv/bin/python -m pytest -q -p no:cacheprovider %s" if os.path.basename(demo).startswith("test_") \
            else "/venv/bin/python %s"
        rc_with, out_with = sh(runner % demo, cwd=tmp, env=env, timeout=300)
        results = {}
        for prop in [a.prop] + a.also:
            env3 = dict(os.environ, VERIF_REPO=tmp, VERIF_EVIDENCE_DIR=os.path.join(evtmp, "_ev"),
                        VERIF_REPLAY_DIR=os.path.join(evtmp, "_rp"), PYTHONDONTWRITEBYTECODE="1")
            env3.pop("PYTHONPATH", None)
            t = time.time()
            rc, out = sh("%s/check %s --tier %s" % (VERIF, prop, a.tier), cwd=VERIF, env=env3, timeout=6000)
            lines = [l for l in out.splitlines() if l.startswith(("VIOLATION", "  case", "INCONCLUSIVE", "KNOWN"))]
            results[prop] = {"exit": rc, "seconds": round(time.time() - t, 1), "first_lines": lines[:4]}
            meta["ran"].append("./check %s --tier %s with VERIF_REPO=<patched scratch worktree>: exit %d"
                               % (prop, a.tier, rc))
        sh("git checkout -- dali", cwd=tmp)
        rc_without, out_without = sh(runner % demo, cwd=tmp, env=env, timeout=300)
        meta["demo_with_change_exit"] = rc_with
        meta["demo_without_change_exit"] = rc_without
        meta["ran"].append("demo with change: exit %d; after undoing it: exit %d" % (rc_with, rc_without))
        ok = suite_ok and rc_with != 0 and rc_without == 0
        meta["confirmed"] = ok
        meta["checks"] = results
        meta["caught_by"] = [p for p, r in results.items() if r["exit"] == 1]
        notes = os.path.join(src, "notes.txt")
        meta["needs"] = open(notes).read().strip() if os.path.exists(notes) else ""
        print(name, "confirmed=%s" % ok, "suite=%r" % meta["suite_with_change"], "demo with/without=%d/%d"
              % (rc_with, rc_without), "checks:", {p: r["exit"] for p, r in results.items()})
        for p, r in results.items():
            for l in r["first_lines"][:2]:
                print("   ", l[:220])
        if ok:
            dst = os.path.join(VERIF, "seeded", name)
            os.makedirs(dst, exist_ok=True)
            shutil.copy(patch, os.path.join(dst, "patch.diff"))
            shutil.copy(demo, os.path.join(dst, os.path.basename(demo)))
            if os.path.exists(notes):
                shutil.copy(notes, os.path.join(dst, "notes.txt"))
            json.dump(meta, open(os.path.join(dst, "meta.json"), "w"), indent=1)
        return 0
    finally:
        sh("git checkout -- dali", cwd=tmp)
        shutil.rmtree(evtmp, ignore_errors=True)


if __name__ == "__main__":
    sys.exit(main())
