#!/bin/sh
# ./tools/run_all.sh quick|thorough [IDs...]  - run checks sequentially, print a one-line summary each
TIER=${1:-quick}; shift
IDS=${@:-C01 C02 C03 C04 C05 C06 C07 C08 C09 C10 C11 C12 C13 C14 C15 C16 C17 C18 C19 C20}
cd "$(dirname "$0")/.."
for id in $IDS; do
  start=$(date +%s)
  ./check $id --tier $TIER > /tmp/run_all_$id.log 2>&1
  rc=$?
  end=$(date +%s)
  echo "$id rc=$rc $((end-start))s $(tail -1 /tmp/run_all_$id.log | cut -c1-160)"
  grep -E "^(VIOLATION|INCONCLUSIVE|KNOWN)" /tmp/run_all_$id.log | head -5 | cut -c1-300
done
