"""Evaluate a behaviour-preserving refactoring written by a sub-agent: no check may raise an alarm on it.

usage: tools/benign_eval.py C07 1 [--tier quick] [--all]

Steps (in the sub-agent's scratch worktree /tmp/seed-<ID>, restored afterwards):
  1. the patch applies to the current /repo tree and the existing suite still passes with it,
  2. every check whose anchor files the patch touches (or every check with --all) is run against the
     patched worktree (VERIF_REPO=<scratch>): exit 0 is expected.  Exit 1 is either a false alarm or a
     refactoring that is not behaviour-preserving after all (triaged by hand: the replay is run on the
     unchanged tree too); exit 2 means the harness depends on an internal the refactoring changed.
The result is filed as /verif/seeded/benign/<ID>-<n>/{patch.diff,notes.txt,meta.json}.
"""
import argparse
import json
import os
import re
import shutil
import subprocess
import sys
import tempfile
import time

VERIF = os.path.dirname(os.path.dirname(os.path.abspath(__file__)))


def sh(cmd, cwd=None, env=None, timeout=6000):
    p = subprocess.run(cmd, shell=True, cwd=cwd, env=env, capture_output=True, text=True, timeout=timeout)
    return p.returncode, p.stdout + p.stderr


def main():
    ap = argparse.ArgumentParser()
    ap.add_argument("prop")
    ap.add_argument("n")
    ap.add_argument("--tier", default="quick")
    ap.add_argument("--all", action="store_true")
    ap.add_argument("--only", nargs="*", default=None)
    a = ap.parse_args()
    tmp = "%s%s" % (os.environ.get("SEED_ROOT", "/tmp/seed-"), a.prop)
    src = os.path.join(tmp, "_benign", a.n)
    name = "%s-r%s" % (a.prop, a.n)
    patch = os.path.join(src, "patch.diff")
    if not os.path.exists(patch):
        print(name, "no patch.diff in", src)
        return 2
    touched = set(re.findall(r"^\+\+\+ b/(\S+)", open(patch).read(), re.M))
    props = [json.loads(l) for l in open(os.path.join(VERIF, "properties.jsonl"))]
    if a.only:
        run = a.only
    elif a.all:
        run = [p["id"] for p in props]
    else:
        run = [p["id"] for p in props if p["id"] == a.prop or touched & set(p["anchors"]["files"])]
    evtmp = tempfile.mkdtemp(prefix="benigneval-")
    meta = {"refactoring": name, "property": a.prop, "touched": sorted(touched), "ran": []}
    try:
        sh("git checkout -- dali", cwd=tmp)
        rc, out = sh("git apply --whitespace=nowarn %s" % patch, cwd=tmp)
        if rc != 0:
            print(name, "patch does not apply:", out[-300:])
            return 2
        env = dict(os.environ, PYTHONPATH=tmp, PYTHONDONTWRITEBYTECODE="1")
        rc, out = sh("/venv/bin/python -m pytest -q -p no:cacheprovider --timeout=900 "
                     "--continue-on-collection-errors 2>&1 | tail -3", cwd=tmp, env=env)
        meta["suite_with_change"] = out.strip().splitlines()[-1] if out.strip() else ""
        suite_ok = "110 passed" in out and "failed" not in out.split("110 passed")[-1]
        meta["suite_ok"] = suite_ok
        results = {}
        for prop in run:
            env3 = dict(os.environ, VERIF_REPO=tmp, VERIF_EVIDENCE_DIR=os.path.join(evtmp, "_ev"),
                        VERIF_REPLAY_DIR=os.path.join(evtmp, "_rp"), PYTHONDONTWRITEBYTECODE="1")
            env3.pop("PYTHONPATH", None)
            t = time.time()
            rc, out = sh("%s/check %s --tier %s" % (VERIF, prop, a.tier), cwd=VERIF, env=env3)
            lines = [l for l in out.splitlines() if l.startswith(("VIOLATION", "  case", "INCONCLUSIVE", "Traceback"))
                     or "Error" in l[:60]]
            results[prop] = {"exit": rc, "seconds": round(time.time() - t, 1), "first_lines": lines[:6]}
            meta["ran"].append("./check %s --tier %s with VERIF_REPO=<patched scratch worktree>: exit %d"
                               % (prop, a.tier, rc))
            if rc != 0:
                open(os.path.join("/tmp", "benign-%s-%s.log" % (name, prop)), "w").write(out)
        meta["checks"] = results
        meta["alarms"] = [p for p, r in results.items() if r["exit"] == 1]
        meta["inconclusive"] = [p for p, r in results.items() if r["exit"] not in (0, 1)]
        notes = os.path.join(src, "notes.txt")
        meta["notes"] = open(notes).read().strip() if os.path.exists(notes) else ""
        print(name, "suite_ok=%s" % suite_ok, "checks:", {p: r["exit"] for p, r in results.items()})
        for p, r in results.items():
            if r["exit"] != 0:
                for l in r["first_lines"][:4]:
                    print("   ", p, l[:240])
        dst = os.path.join(VERIF, "seeded", "benign", name)
        os.makedirs(dst, exist_ok=True)
        shutil.copy(patch, os.path.join(dst, "patch.diff"))
        if os.path.exists(notes):
            shutil.copy(notes, os.path.join(dst, "notes.txt"))
        json.dump(meta, open(os.path.join(dst, "meta.json"), "w"), indent=1)
        return 0
    finally:
        sh("git checkout -- dali", cwd=tmp)
        shutil.rmtree(evtmp, ignore_errors=True)


if __name__ == "__main__":
    sys.exit(main())
