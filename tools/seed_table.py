"""Regenerate the seeded-changes table in DESIGN.md from /verif/seeded/*/meta.json."""
import glob
import json
import os
import re

VERIF = os.path.dirname(os.path.dirname(os.path.abspath(__file__)))
rows = []
for f in sorted(glob.glob(os.path.join(VERIF, "seeded", "*", "meta.json"))):
    m = json.load(open(f))
    first = (m.get("needs") or "").strip().splitlines()[0:1]
    caught = ", ".join(m.get("caught_by") or []) or "MISSED"
    tiers = "; ".join("%s exit %s (%ss)" % (p, r["exit"], r["seconds"]) for p, r in m.get("checks", {}).items())
    rows.append("| %s | %s | %s | %s |" % (m["seed"], (first[0] if first else "")[:150].replace("|", "/"), caught, tiers))
table = "| seed | change (first line of the author's notes) | caught by | runs |\n|---|---|---|---|\n" + "\n".join(rows)
brows = []
for f in sorted(glob.glob(os.path.join(VERIF, "seeded", "benign", "*", "meta.json"))):
    m = json.load(open(f))
    first = (m.get("notes") or "").strip().splitlines()[0:1]
    res = "; ".join("%s exit %s" % (p, r["exit"]) for p, r in m.get("checks", {}).items())
    verdict = "ok" if not m.get("alarms") and not m.get("inconclusive") else \
        ("ALARM " + ",".join(m.get("alarms", [])) if m.get("alarms") else "inconclusive " + ",".join(m.get("inconclusive", [])))
    brows.append("| %s | %s | %s | %s |" % (m["refactoring"], (first[0] if first else "")[:140].replace("|", "/"), verdict, res))
table += "\n\n| refactoring | what was restructured (first line of the author's notes) | verdict | runs |\n|---|---|---|---|\n" + "\n".join(brows)
p = os.path.join(VERIF, "DESIGN.md")
s = open(p).read()
s = re.sub(r"<!-- SEED-TABLE-BEGIN -->.*<!-- SEED-TABLE-END -->",
           lambda m: "<!-- SEED-TABLE-BEGIN -->\n" + table + "\n<!-- SEED-TABLE-END -->", s, flags=re.S)
open(p, "w").write(s)
print(len(rows), "seeds")
