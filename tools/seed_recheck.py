"""Re-run the checks against every filed seeded change (and benign refactoring) with the current harness.

usage: tools/seed_recheck.py [--only C07-1 ...] [--benign] [--jobs-per-check N]

For each /verif/seeded/<ID>-<n>/ the patch is applied in a scratch worktree of /repo's HEAD (created under
/tmp and removed afterwards), the check(s) that are supposed to catch it (meta.caught_by, else the property's
own) are run with VERIF_REPO pointing there, and meta.json gets the fresh result under "checks" /
"caught_by" / "rechecked_at".  A seed whose patch no longer applies to HEAD is reported.
For benign refactorings (--benign) every check whose anchor files the patch touches is run; exit 0 expected.
"""
import argparse
import glob
import json
import os
import re
import subprocess
import sys
import tempfile
import time

VERIF = os.path.dirname(os.path.dirname(os.path.abspath(__file__)))


def sh(cmd, cwd=None, env=None, timeout=7200):
    p = subprocess.run(cmd, shell=True, cwd=cwd, env=env, capture_output=True, text=True, timeout=timeout)
    return p.returncode, p.stdout + p.stderr


def main():
    ap = argparse.ArgumentParser()
    ap.add_argument("--only", nargs="*")
    ap.add_argument("--benign", action="store_true")
    ap.add_argument("--tag", default="w")
    ap.add_argument("--own", action="store_true", help="benign: only the refactoring's own property's check")
    ap.add_argument("--skip", nargs="*", default=[])
    a = ap.parse_args()
    head = sh("git -C /repo rev-parse --short HEAD")[1].strip()
    wt = "/tmp/recheck-%s-%d" % (a.tag, os.getpid())
    rc, out = sh("git -C /repo worktree add --detach %s HEAD" % wt)
    if rc != 0:
        print(out)
        return 2
    props = [json.loads(l) for l in open(os.path.join(VERIF, "properties.jsonl"))]
    pat = os.path.join(VERIF, "seeded", "benign", "*", "meta.json") if a.benign \
        else os.path.join(VERIF, "seeded", "C*", "meta.json")
    try:
        for f in sorted(glob.glob(pat)):
            d = os.path.dirname(f)
            name = os.path.basename(d)
            if (a.only and name not in a.only) or name in a.skip:
                continue
            m = json.load(open(f))
            sh("git checkout -q -- . && git clean -fdq dali", cwd=wt)
            rc, out = sh("git apply --whitespace=nowarn %s/patch.diff" % d, cwd=wt)
            if rc != 0:
                print(name, "PATCH DOES NOT APPLY to", head, out[-200:].strip())
                continue
            if a.benign:
                touched = set(re.findall(r"^\+\+\+ b/(\S+)", open(os.path.join(d, "patch.diff")).read(), re.M))
                run = [p["id"] for p in props if p["id"] == m["property"] or touched & set(p["anchors"]["files"])]
                if a.own:
                    run = [m["property"]]
            else:
                run = list(dict.fromkeys([m["property"]] + [c for c in (m.get("caught_by") or [])]))
            evtmp = tempfile.mkdtemp(prefix="recheck-")
            results = {}
            for prop in run:
                env = dict(os.environ, VERIF_REPO=wt, VERIF_EVIDENCE_DIR=os.path.join(evtmp, "ev"),
                           VERIF_REPLAY_DIR=os.path.join(evtmp, "rp"), PYTHONDONTWRITEBYTECODE="1")
                env.pop("PYTHONPATH", None)
                t = time.time()
                rc, out = sh("%s/check %s --tier quick" % (VERIF, prop), cwd=VERIF, env=env)
                lines = [l for l in out.splitlines() if l.startswith(("VIOLATION", "  case", "INCONCLUSIVE"))]
                results[prop] = {"exit": rc, "seconds": round(time.time() - t, 1), "first_lines": lines[:4]}
            sh("rm -rf %s" % evtmp)
            if a.own and a.benign:
                results = dict(m.get("checks", {}), **results)
            m["checks"] = results
            if a.benign:
                m["alarms"] = [p for p, r in results.items() if r["exit"] == 1]
                m["inconclusive"] = [p for p, r in results.items() if r["exit"] not in (0, 1)]
            else:
                m["caught_by"] = [p for p, r in results.items() if r["exit"] == 1]
            m["rechecked_at"] = {"repo": head, "verif": sh("git -C %s rev-parse --short HEAD" % VERIF)[1].strip()}
            json.dump(m, open(f, "w"), indent=1)
            print(name, {p: r["exit"] for p, r in results.items()}, flush=True)
    finally:
        sh("git -C /repo worktree remove --force %s" % wt)
    return 0


if __name__ == "__main__":
    sys.exit(main())
